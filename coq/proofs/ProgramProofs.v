(* Proofs about model/Program.v and Product/Plus of model/Chain.v (C18): the builders' bounds checks,
   well-formedness of every built program, Evaluate / Count / ReadCounts / Dependencies against their
   definitions, and validity of Product and Plus. *)
From Coq Require Import String.
From Coq Require Import List NArith ZArith Bool Arith Lia Relations.
From AV Require Import model.Proto model.Chain model.Program proofs.ChainProofs.
Import ListNotations.
Open Scope Z_scope.

(* ------------------------------------------------------------------------------------------ *)
(* specification vocabulary (independent of the code) *)

(* an operand names an existing element of the chain of program p: positions 0..length p *)
Definition in_range (p : list op) (i : Z) : Prop := 0 <= i <= Z.of_nat (length p).

(* the operations of a shift by s at program length n: double i, then double the newest element *)
Fixpoint shift_ops (n i s : nat) : list op :=
  match s with
  | O => []
  | S s' => (i, i) :: shift_ops (S n) (S n) s'
  end.

Definition ops_of (n : nat) (c : call) : list op :=
  match c with
  | CAdd i j => [(Z.to_nat i, Z.to_nat j)]
  | CDouble i => [(Z.to_nat i, Z.to_nat i)]
  | CShift i s => shift_ops n (Z.to_nat i) (N.to_nat s)
  end.

Definition operands_ok (p : list op) (c : call) : Prop :=
  match c with
  | CAdd i j => in_range p i /\ in_range p j
  | CDouble i => in_range p i
  | CShift i _ => in_range p i
  end.

(* the property's "shift (by at least one)" *)
Definition shift_nonzero (c : call) : Prop :=
  match c with
  | CShift _ s => (1 <= s)%N
  | _ => True
  end.

(* the program after a sequence of builder calls, errors ignored as a caller could *)
Definition build_from (p : list op) (cs : list call) : list op :=
  fold_left (fun q c => fst (step q c)) cs p.

(* c is the chain of program p *)
Definition evaluates_to (p : list op) (c : list Z) : Prop :=
  length c = S (length p) /\ nz c 0 = 1 /\
  forall k i j, nth_error p k = Some (i, j) -> nz c (S k) = nz c i + nz c j.

(* number of operations that use element i (a doubling counts once) *)
Definition uses (o : op) (i : nat) : bool := (fst o =? i)%nat || (snd o =? i)%nat.
Definition nreads (p : list op) (i : nat) : nat := length (filter (fun o => uses o i) p).

(* element k (k >= 1, produced by operation k-1) has operand i *)
Definition operand_of (p : list op) (k i : nat) : Prop :=
  exists k' a b, k = S k' /\ nth_error p k' = Some (a, b) /\ (i = a \/ i = b).
Definition reaches (p : list op) : nat -> nat -> Prop := clos_refl_trans nat (operand_of p).

(* ------------------------------------------------------------------------------------------ *)
(* explicit form of shift_ops *)

Lemma shift_ops_length n i s : length (shift_ops n i s) = s.
Proof. revert n i. induction s as [|s IH]; intros n i; cbn [shift_ops length]; [reflexivity|]. now rewrite IH. Qed.

Lemma shift_ops_nth n i s t : (t < s)%nat ->
  nth t (shift_ops n i s) (0, 0)%nat = if (t =? 0)%nat then (i, i) else ((n + t)%nat, (n + t)%nat).
Proof.
  revert n i t. induction s as [|s IH]; intros n i t Ht; [lia|]. cbn [shift_ops].
  destruct t as [|t]; [reflexivity|]. cbn [nth]. rewrite IH by lia.
  destruct t as [|t]; cbn [Nat.eqb].
  - now rewrite Nat.add_1_r.
  - now rewrite Nat.add_succ_comm.
Qed.

(* ------------------------------------------------------------------------------------------ *)
(* bounds check, Add, Double, Shift *)

Lemma boundscheck_ok p i : in_range p i -> boundscheck p i = Ok tt.
Proof.
  unfold in_range, boundscheck. intros H.
  destruct (i <? 0) eqn:E1; [apply Z.ltb_lt in E1; lia|].
  destruct (i >? Z.of_nat (length p)) eqn:E2; [|reflexivity].
  rewrite Z.gtb_ltb in E2. apply Z.ltb_lt in E2. lia.
Qed.

Lemma boundscheck_err p i : ~ in_range p i -> boundscheck p i = Err ($"bounds").
Proof.
  unfold in_range, boundscheck. intros H.
  destruct (i <? 0) eqn:E1; [reflexivity|]. apply Z.ltb_ge in E1.
  destruct (i >? Z.of_nat (length p)) eqn:E2; [reflexivity|].
  rewrite Z.gtb_ltb in E2. apply Z.ltb_ge in E2. lia.
Qed.

Lemma in_range_dec p i : in_range p i \/ ~ in_range p i.
Proof. unfold in_range. lia. Qed.

Lemma add_accept p i j : in_range p i -> in_range p j ->
  add p i j = (p ++ [(Z.to_nat i, Z.to_nat j)], Ok (Z.of_nat (length p) + 1)).
Proof.
  intros Hi Hj. unfold add. rewrite (boundscheck_ok p i Hi), (boundscheck_ok p j Hj).
  cbv zeta. rewrite app_length. cbn [length]. do 2 f_equal. lia.
Qed.

Lemma add_reject p i j : ~ (in_range p i /\ in_range p j) -> add p i j = (p, Err ($"bounds")).
Proof.
  intros H. unfold add. destruct (in_range_dec p i) as [Hi|Hi].
  - rewrite (boundscheck_ok p i Hi). rewrite (boundscheck_err p j) by tauto. reflexivity.
  - rewrite (boundscheck_err p i Hi). reflexivity.
Qed.

Lemma shift_loop_accept : forall s p i, in_range p i ->
  shift_loop (S s) p i =
    (p ++ shift_ops (length p) (Z.to_nat i) (S s), Ok (Z.of_nat (length p + S s))).
Proof.
  induction s as [|s IH]; intros p i Hi.
  - cbn [shift_loop shift_ops]. unfold double. rewrite (add_accept p i i Hi Hi). do 2 f_equal. lia.
  - change (shift_loop (S (S s)) p i) with
      (match double p i with (p', Ok next) => shift_loop (S s) p' next | (p', e) => (p', e) end).
    unfold double. rewrite (add_accept p i i Hi Hi).
    assert (Hr : in_range (p ++ [(Z.to_nat i, Z.to_nat i)]) (Z.of_nat (length p) + 1)).
    { unfold in_range. rewrite app_length. cbn [length]. lia. }
    rewrite (IH _ _ Hr). rewrite app_length. cbn [length]. rewrite <- app_assoc.
    change (shift_ops (length p) (Z.to_nat i) (S (S s))) with
      ((Z.to_nat i, Z.to_nat i) :: shift_ops (S (length p)) (S (length p)) (S s)).
    replace (Z.to_nat (Z.of_nat (length p) + 1)) with (S (length p)) by lia.
    replace (length p + 1)%nat with (S (length p)) by lia.
    cbn [app]. do 3 f_equal. lia.
Qed.

Lemma shift_loop_reject s p i : ~ in_range p i -> shift_loop (S s) p i = (p, Err ($"bounds")).
Proof. intros Hi. cbn [shift_loop]. unfold double. rewrite add_reject by tauto. reflexivity. Qed.

Theorem step_accept p c : shift_nonzero c -> operands_ok p c ->
  step p c = (p ++ ops_of (length p) c, Ok (Z.of_nat (length (p ++ ops_of (length p) c)))).
Proof.
  destruct c as [i j|i|i s]; cbn [shift_nonzero operands_ok step ops_of].
  - intros _ [Hi Hj]. rewrite (add_accept p i j Hi Hj), app_length. cbn [length]. do 2 f_equal. lia.
  - intros _ Hi. unfold double. rewrite (add_accept p i i Hi Hi), app_length. cbn [length]. do 2 f_equal. lia.
  - intros Hs Hi. unfold shift. destruct (N.to_nat s) as [|s'] eqn:Es; [lia|].
    rewrite (shift_loop_accept s' p i Hi), app_length, shift_ops_length. reflexivity.
Qed.

Theorem step_reject p c : shift_nonzero c -> ~ operands_ok p c -> step p c = (p, Err ($"bounds")).
Proof.
  destruct c as [i j|i|i s]; cbn [shift_nonzero operands_ok step].
  - intros _ H. now apply add_reject.
  - intros _ H. unfold double. apply add_reject. tauto.
  - intros Hs Hi. unfold shift. destruct (N.to_nat s) as [|s'] eqn:Es; [lia|]. now apply shift_loop_reject.
Qed.

(* the executable entry point for huge shift amounts is the same function *)
Lemma shift_go_eq p i s : shift_go p i s = shift p i s.
Proof.
  unfold shift_go, shift. destruct (s =? 0)%N eqn:E.
  - apply N.eqb_eq in E. subst s. reflexivity.
  - apply N.eqb_neq in E. replace (N.to_nat s) with (S (N.to_nat (N.pred s))) by lia. reflexivity.
Qed.

Theorem step_go_eq p c : step_go p c = step p c.
Proof. destruct c as [i j|i|i s]; cbn [step_go step]; [reflexivity|reflexivity|apply shift_go_eq]. Qed.

(* what the code does for a shift by zero: the operand comes back unchecked *)
Theorem step_shift_zero p i : step p (CShift i 0) = (p, Ok i).
Proof. reflexivity. Qed.

(* ------------------------------------------------------------------------------------------ *)
(* every built program is well formed *)

Lemma wf_nil : wf_program [].
Proof. intros k i j H. destruct k; discriminate. Qed.

Lemma wf_snoc p i j : wf_program p -> (i <= length p)%nat -> (j <= length p)%nat -> wf_program (p ++ [(i, j)]).
Proof.
  intros Hp Hi Hj k a b H. destruct (Nat.lt_ge_cases k (length p)) as [Hk|Hk].
  - rewrite nth_error_app1 in H by exact Hk. exact (Hp k a b H).
  - rewrite nth_error_app2 in H by exact Hk. destruct (k - length p)%nat as [|d] eqn:Ed.
    + cbn [nth_error] in H. injection H as <- <-. lia.
    + destruct d; discriminate.
Qed.

Lemma add_wf p i j : wf_program p -> wf_program (fst (add p i j)).
Proof.
  intros Hp. destruct (in_range_dec p i) as [Hi|Hi]; [destruct (in_range_dec p j) as [Hj|Hj]|].
  - rewrite (add_accept p i j Hi Hj). cbn [fst]. unfold in_range in Hi, Hj. apply wf_snoc; [exact Hp|lia|lia].
  - rewrite add_reject by tauto. exact Hp.
  - rewrite add_reject by tauto. exact Hp.
Qed.

Lemma shift_loop_wf : forall s p i, wf_program p -> wf_program (fst (shift_loop s p i)).
Proof.
  induction s as [|s IH]; intros p i Hp; [exact Hp|]. cbn [shift_loop]. unfold double.
  pose proof (add_wf p i i Hp) as Hw. destruct (add p i i) as [p' [next|e|e|]]; cbn [fst] in *; try exact Hw.
  now apply IH.
Qed.

Lemma step_wf p c : wf_program p -> wf_program (fst (step p c)).
Proof.
  intros Hp. destruct c as [i j|i|i s]; cbn [step].
  - now apply add_wf.
  - now apply add_wf.
  - now apply shift_loop_wf.
Qed.

Theorem built_wf cs : wf_program (build_from [] cs).
Proof.
  unfold build_from. generalize wf_nil. generalize (@nil op).
  induction cs as [|c cs IH]; intros p Hp; cbn [fold_left]; [exact Hp|]. apply IH. now apply step_wf.
Qed.

(* ------------------------------------------------------------------------------------------ *)
(* Evaluate on well-formed programs *)

Lemma evaluate_from_wf : forall p c0,
  (forall k i j, nth_error p k = Some (i, j) -> (i < length c0 + k)%nat /\ (j < length c0 + k)%nat) ->
  exists rest, evaluate_from c0 p = Ok (c0 ++ rest) /\ length rest = length p /\
    forall k i j, nth_error p k = Some (i, j) ->
      nz (c0 ++ rest) (length c0 + k) = nz (c0 ++ rest) i + nz (c0 ++ rest) j.
Proof.
  induction p as [|[i j] r IH]; intros c0 H.
  - exists []. rewrite app_nil_r. split; [reflexivity|]. split; [reflexivity|]. intros k a b E. destruct k; discriminate.
  - destruct (H 0%nat i j eq_refl) as [Hi Hj]. rewrite Nat.add_0_r in Hi, Hj.
    cbn [evaluate_from]. rewrite (nth_error_nz c0 [] i Hi), (nth_error_nz c0 [] j Hj), !app_nil_r.
    destruct (IH (c0 ++ [nz c0 i + nz c0 j])) as (rest & He & Hl & Hs).
    { intros k a b E. rewrite app_length. cbn [length]. pose proof (H (S k) a b E). lia. }
    exists ((nz c0 i + nz c0 j) :: rest). rewrite <- app_assoc in He, Hs. cbn [app] in He, Hs.
    split; [exact He|]. split; [cbn [length]; now rewrite Hl|].
    intros k a b E. destruct k as [|k].
    + cbn [nth_error] in E. injection E as <- <-. rewrite nz_app_r, !nz_app_l by lia. reflexivity.
    + cbn [nth_error] in E. specialize (Hs k a b E). rewrite app_length in Hs. cbn [length] in Hs.
      replace (length c0 + S k)%nat with (length c0 + 1 + k)%nat by lia. exact Hs.
Qed.

Theorem evaluate_wf p : wf_program p -> exists c, evaluate p = Ok c /\ evaluates_to p c.
Proof.
  intros Hp. destruct (evaluate_from_wf p [1]) as (rest & He & Hl & Hs).
  - intros k i j E. cbn [length]. pose proof (Hp k i j E). lia.
  - exists ([1] ++ rest). split; [exact He|]. split; [cbn [app length]; now rewrite Hl|].
    split; [reflexivity|]. intros k i j E. exact (Hs k i j E).
Qed.

(* ------------------------------------------------------------------------------------------ *)
(* Count *)

Lemma filter_partition_length {A} (f : A -> bool) l :
  (length (filter f l) + length (filter (fun x => negb (f x)) l))%nat = length l.
Proof.
  induction l as [|x t IH]; [reflexivity|]. cbn [filter]. destruct (f x); cbn [negb length]; lia.
Qed.

Theorem count_sum p : (fst (count p) + snd (count p))%nat = length p.
Proof. unfold count. cbn [fst snd]. apply filter_partition_length. Qed.

Theorem count_spec p :
  fst (count p) = length (filter (fun o => (fst o =? snd o)%nat) p) /\
  snd (count p) = length (filter (fun o => negb (fst o =? snd o)%nat) p).
Proof. split; reflexivity. Qed.

(* ------------------------------------------------------------------------------------------ *)
(* ReadCounts *)

Definition bumped (l : list nat) (i : nat) : list nat := firstn i l ++ [S (nth i l O)] ++ skipn (S i) l.

Lemma bumped_spec : forall i l, (i < length l)%nat ->
  length (bumped l i) = length l /\
  forall t, nth t (bumped l i) O = (nth t l O + if (t =? i)%nat then 1 else 0)%nat.
Proof.
  unfold bumped. induction i as [|i IH]; intros l Hi; (destruct l as [|x l]; [cbn [length] in Hi; lia|]).
  - cbn [firstn skipn app nth length]. split; [reflexivity|]. intros [|t]; cbn [nth Nat.eqb]; lia.
  - cbn [length] in Hi. destruct (IH l ltac:(lia)) as [Hl Hn].
    change (skipn (S (S i)) (x :: l)) with (skipn (S i) l).
    change (firstn (S i) (x :: l)) with (x :: firstn i l).
    change (nth (S i) (x :: l) O) with (nth i l O).
    rewrite <- app_comm_cons. cbn [length]. split; [now rewrite Hl|].
    intros [|t]; [cbn [nth Nat.eqb]; lia|]. change (S t =? S i)%nat with (t =? i)%nat.
    change (nth (S t) (x :: l) O) with (nth t l O). rewrite <- Hn. reflexivity.
Qed.

Lemma bump_ok l i : (i < length l)%nat -> bump l i = Ok (bumped l i).
Proof. intros H. unfold bump, bumped. apply Nat.ltb_lt in H. now rewrite H. Qed.

Lemma nreads_cons o p i : nreads (o :: p) i = ((if uses o i then 1 else 0) + nreads p i)%nat.
Proof. unfold nreads. cbn [filter]. destruct (uses o i); reflexivity. Qed.

Lemma map_nth_seq (l : list nat) : map (fun i => nth i l O) (seq 0 (length l)) = l.
Proof.
  induction l as [|x l IH]; [reflexivity|]. cbn [length seq map nth]. f_equal.
  rewrite <- seq_shift, map_map. exact IH.
Qed.

Lemma read_counts_loop_spec : forall p reads,
  (forall o, In o p -> (fst o < length reads)%nat /\ (snd o < length reads)%nat) ->
  read_counts_loop reads p = Ok (map (fun i => (nth i reads O + nreads p i)%nat) (seq 0 (length reads))).
Proof.
  induction p as [|[i j] r IH]; intros reads H.
  - cbn [read_counts_loop]. f_equal. rewrite <- (map_nth_seq reads) at 1.
    apply map_ext. intros i. unfold nreads. cbn [filter length]. lia.
  - destruct (H (i, j) (or_introl eq_refl)) as [Hi Hj]. cbn [fst snd] in Hi, Hj.
    assert (Hr : forall rs : list nat, length rs = length reads ->
              forall o, In o r -> (fst o < length rs)%nat /\ (snd o < length rs)%nat).
    { intros rs E o Ho. rewrite E. apply H. now right. }
    cbn [read_counts_loop]. destruct (i =? j)%nat eqn:Eij.
    + apply Nat.eqb_eq in Eij. subst j. rewrite (bump_ok reads i Hi). cbn [obind].
      destruct (bumped_spec i reads Hi) as [Hl Hn]. rewrite (IH _ (Hr _ Hl)), Hl. f_equal.
      apply map_ext. intros t. rewrite Hn, nreads_cons. unfold uses. cbn [fst snd].
      rewrite (Nat.eqb_sym i t). destruct (t =? i)%nat; cbn [orb]; lia.
    + apply Nat.eqb_neq in Eij. rewrite (bump_ok reads i Hi). cbn [obind].
      destruct (bumped_spec i reads Hi) as [Hl Hn].
      assert (Hj' : (j < length (bumped reads i))%nat) by (now rewrite Hl).
      rewrite (bump_ok _ j Hj'). cbn [obind].
      destruct (bumped_spec j _ Hj') as [Hl2 Hn2].
      rewrite (IH _ (Hr _ (eq_trans Hl2 Hl))), Hl2, Hl. f_equal.
      apply map_ext. intros t. rewrite Hn2, Hn, nreads_cons. unfold uses. cbn [fst snd].
      rewrite (Nat.eqb_sym i t), (Nat.eqb_sym j t).
      destruct (t =? i)%nat eqn:E1; destruct (t =? j)%nat eqn:E2; cbn [orb]; try lia.
      apply Nat.eqb_eq in E1, E2. lia.
Qed.

Lemma nth_repeat' {A} (a : A) n i : nth i (repeat a n) a = a.
Proof. revert i. induction n as [|n IH]; intros [|i]; cbn [repeat nth]; auto. Qed.

Lemma wf_operands_le p : wf_program p -> forall o, In o p -> (fst o <= length p)%nat /\ (snd o <= length p)%nat.
Proof.
  intros Hp [i j] Ho. destruct (In_nth_error _ _ Ho) as [k Hk].
  assert (k < length p)%nat by (apply nth_error_Some; congruence).
  pose proof (Hp k i j Hk). cbn [fst snd]. lia.
Qed.

Theorem read_counts_spec p :
  (forall o, In o p -> (fst o <= length p)%nat /\ (snd o <= length p)%nat) ->
  read_counts p = Ok (map (nreads p) (seq 0 (S (length p)))).
Proof.
  intros H. unfold read_counts. rewrite read_counts_loop_spec.
  - rewrite repeat_length. f_equal. apply map_ext. intros i. now rewrite nth_repeat'.
  - intros o Ho. rewrite repeat_length. pose proof (H o Ho) as Ho2. unfold op in *. lia.
Qed.

(* ------------------------------------------------------------------------------------------ *)
(* Dependencies *)

Lemma reaches_refl p k : reaches p k k.
Proof. apply rt_refl. Qed.

Lemma reaches_zero p i : reaches p 0%nat i <-> i = 0%nat.
Proof.
  split; [|intros ->; apply reaches_refl]. intros H. apply clos_rt_rt1n in H.
  inversion H as [|y z (k' & a & b & E & _) _]; [reflexivity|discriminate].
Qed.

Lemma reaches_succ p k a b i : nth_error p k = Some (a, b) ->
  reaches p (S k) i <-> i = S k \/ reaches p a i \/ reaches p b i.
Proof.
  intros Hk. split.
  - intros H. apply clos_rt_rt1n in H. inversion H as [|y z (k' & a' & b' & E & Hn & Hy) Hr]; [now left|].
    right. injection E as E2. subst k'. assert (E3 : Some (a, b) = Some (a', b')) by (rewrite <- Hk; exact Hn). injection E3 as <- <-. apply clos_rt1n_rt in Hr.
    destruct Hy as [->| ->]; [now left|now right].
  - intros [->|[H|H]]; [apply reaches_refl| |].
    + apply rt_trans with a; [|exact H]. apply rt_step. exists k, a, b. auto.
    + apply rt_trans with b; [|exact H]. apply rt_step. exists k, a, b. auto.
Qed.

Definition deps_inv (p : list op) (bs : list N) : Prop :=
  forall k, (k < length bs)%nat -> forall i, N.testbit (nth k bs 0%N) (N.of_nat i) = true <-> reaches p k i.

Lemma deps_loop_spec p : wf_program p -> forall r done bs,
  p = done ++ r -> length bs = S (length done) -> deps_inv p bs ->
  exists bs', deps_loop bs r = Ok bs' /\ length bs' = S (length p) /\ deps_inv p bs'.
Proof.
  intros Hp. induction r as [|[a b] r IH]; intros done bs Ep Hl Hinv.
  - exists bs. rewrite app_nil_r in Ep. subst done. auto.
  - assert (Hk : nth_error p (length done) = Some (a, b)).
    { rewrite Ep, nth_error_app2, Nat.sub_diag by lia. reflexivity. }
    destruct (Hp _ _ _ Hk) as [Ha Hb].
    cbn [deps_loop].
    rewrite (nth_error_nth' bs 0%N (n := a)) by lia. rewrite (nth_error_nth' bs 0%N (n := b)) by lia.
    apply (IH (done ++ [(a, b)])).
    + now rewrite <- app_assoc.
    + rewrite !app_length. cbn [length]. lia.
    + intros k Hlt i. rewrite app_length in Hlt. cbn [length] in Hlt.
      destruct (Nat.eq_dec k (length bs)) as [->|Hn].
      * rewrite nth_middle. rewrite Hl, (reaches_succ p _ a b i Hk).
        rewrite !N.lor_spec, !orb_true_iff, N.shiftl_1_l, N.pow2_bits_eqb, N.eqb_eq.
        rewrite (Hinv a ltac:(lia) i), (Hinv b ltac:(lia) i). rewrite <- Hl. split.
        -- intros [[H|H]|H]; [tauto|tauto|]. left. lia.
        -- intros [H|[H|H]]; [|tauto|tauto]. right. subst i. now rewrite Hl.
      * rewrite app_nth1 by lia. apply Hinv. lia.
Qed.

Theorem deps_spec p : wf_program p ->
  exists bs, dependencies p = Ok bs /\ length bs = S (length p) /\
    forall k i, (k <= length p)%nat -> (N.testbit (nth k bs 0%N) (N.of_nat i) = true <-> reaches p k i).
Proof.
  intros Hp. destruct (deps_loop_spec p Hp p [] [1%N] eq_refl eq_refl) as (bs & He & Hl & Hinv).
  - intros k Hk i. cbn [length] in Hk. assert (k = 0%nat) by lia. subst k. cbn [nth].
    rewrite reaches_zero. change 1%N with (2 ^ 0)%N. rewrite N.pow2_bits_eqb, N.eqb_eq. lia.
  - exists bs. split; [exact He|]. split; [exact Hl|]. intros k i Hk. apply Hinv. lia.
Qed.

(* ------------------------------------------------------------------------------------------ *)
(* Plus and Product on valid ascending chains *)

Lemma last_app_ne {A} (l m : list A) d : m <> [] -> last (l ++ m) d = last m d.
Proof.
  intros Hm. induction l as [|x l IH]; [reflexivity|]. cbn [app].
  destruct (l ++ m) eqn:E; [apply app_eq_nil in E; destruct E; contradiction|]. cbn [last]. exact IH.
Qed.

Lemma last_map_ne {A B} (f : A -> B) l d d' : l <> [] -> last (map f l) d' = f (last l d).
Proof.
  induction l as [|x l IH]; [contradiction|]. intros _. destruct l as [|y l]; [reflexivity|].
  change (last (map f (x :: y :: l)) d') with (last (map f (y :: l)) d').
  change (last (x :: y :: l) d) with (last (y :: l) d). apply IH. discriminate.
Qed.

Lemma nz_map (f : Z -> Z) l i : (i < length l)%nat -> nz (map f l) i = f (nz l i).
Proof.
  intros H. unfold nz. rewrite (nth_indep _ 0 (f 0)) by (now rewrite map_length). apply map_nth.
Qed.

Lemma chain_nonempty c : is_chain c -> c <> [] /\ nz c 0 = 1 /\ (1 <= length c)%nat.
Proof. intros ([r ->] & _). cbn [length]. repeat split; [discriminate|lia]. Qed.

Lemma last_In (l : list Z) : l <> [] -> In (last l 0) l.
Proof.
  intros H. rewrite <- (nz_last l H). apply nz_In. destruct l; [contradiction|cbn [length]; lia].
Qed.

Theorem plus_valid a x : is_chain a -> asc a -> In x a ->
  exists c, plus a x = Ok c /\ is_chain c /\ asc c /\ last c 0 = last a 0 + x.
Proof.
  intros Hc Ha Hx. destruct (chain_nonempty a Hc) as (Hne & _ & Hlen).
  exists (a ++ [last a 0 + x]). split; [destruct a; [contradiction|reflexivity]|].
  pose proof (chain_pos a x Hc Hx) as Hpos. split; [|split].
  - apply is_chain_snoc; [exact Hc| |].
    + destruct (In_nz a x Hx) as (i & Hi & E). exists i, (length a - 1)%nat. split; [lia|].
      rewrite (nz_last a Hne), E. lia.
    + intros Hin. pose proof (inc_le_last a _ (asc_inc a Ha) Hin). lia.
  - apply asc_snoc; [exact Ha|lia].
  - apply last_last.
Qed.

Theorem product_valid a b : is_chain a -> asc a -> is_chain b -> asc b ->
  exists c, product a b = Ok c /\ is_chain c /\ asc c /\ last c 0 = last a 0 * last b 0.
Proof.
  intros Hca Ha Hcb Hb.
  destruct (chain_nonempty a Hca) as (Hnea & Ha0 & Hlena).
  pose proof (chain_pos a _ Hca (last_In a Hnea)) as HL.
  pose proof (chain_pos_nz b Hcb) as Hposb.
  destruct Hcb as ([b' Eb] & _ & _ & Hsb). subst b.
  set (L := last a 0) in *. set (m := map (fun x => L * x) b').
  exists (a ++ m). split; [destruct a; [contradiction|reflexivity]|].
  assert (Hb'2 : forall t, (t < length b')%nat -> 2 <= nz b' t).
  { intros t Ht. destruct Hb as [_ Hb]. specialize (Hb 0%nat (S t)). cbn [length] in Hb.
    specialize (Hb ltac:(lia)). rewrite nz_cons_0, nz_cons_S in Hb. lia. }
  assert (Hm : forall t, (t < length b')%nat -> nz m t = L * nz b' t).
  { intros t Ht. unfold m. now rewrite nz_map. }
  assert (Hlm : length m = length b') by (unfold m; now rewrite map_length).
  assert (Hinm : forall y, In y m -> 2 * L <= y).
  { intros y Hy. destruct (In_nz m y Hy) as (t & Ht & <-). rewrite Hm by lia.
    pose proof (Hb'2 t ltac:(lia)). nia. }
  assert (Hinc : inc (a ++ m)).
  { apply inc_app; [apply asc_inc; exact Ha| |].
    - intros i j Hij. rewrite !Hm by lia. destruct Hb as [_ Hb]. specialize (Hb (S i) (S j)).
      cbn [length] in Hb. specialize (Hb ltac:(lia)). rewrite !nz_cons_S in Hb. nia.
    - intros x y Hx Hy. pose proof (inc_le_last a x (asc_inc a Ha) Hx). pose proof (Hinm y Hy). fold L in H. lia. }
  (* position length a - 1 + i of the product holds L * b[i] *)
  assert (Hphi : forall i, (i <= length b')%nat -> nz (a ++ m) (length a - 1 + i) = L * nz (1 :: b') i).
  { intros i Hi. destruct i as [|i].
    - rewrite Nat.add_0_r, nz_app_l by lia. rewrite (nz_last a Hnea), nz_cons_0. fold L. lia.
    - replace (length a - 1 + S i)%nat with (length a + i)%nat by lia.
      rewrite nz_app_r, nz_cons_S. apply Hm. lia. }
  split; [|split].
  - destruct Hca as ([ra Era] & Hnda & H0a & Hsa). split; [|split; [|split]].
    + exists (ra ++ m). rewrite Era. reflexivity.
    + now apply inc_NoDup.
    + rewrite in_app_iff. intros [H|H]; [exact (H0a H)|]. pose proof (Hinm 0 H). lia.
    + intros k Hk. rewrite app_length, Hlm in Hk.
      destruct (Nat.lt_ge_cases k (length a)) as [Hlt|Hge].
      * destruct (Hsa k ltac:(lia)) as (i & j & Hij & E). exists i, j. split; [lia|].
        rewrite !nz_app_l by lia. exact E.
      * set (t := (k - length a)%nat). destruct (Hsb (S t)) as (i & j & Hij & E); [cbn [length]; lia|].
        exists (length a - 1 + i)%nat, (length a - 1 + j)%nat. split; [lia|].
        rewrite !Hphi by lia. replace k with (length a - 1 + S t)%nat by lia. rewrite Hphi by lia. lia.
  - split; [|exact Hinc]. destruct Ha as [[ra Era] _]. exists (ra ++ m). rewrite Era. reflexivity.
  - destruct b' as [|y b'']; [unfold m; cbn [map last]; rewrite app_nil_r; fold L; lia|].
    rewrite last_app_ne by (unfold m; discriminate). unfold m.
    rewrite (last_map_ne (fun x => L * x) (y :: b'') 0 0) by discriminate. reflexivity.
Qed.

(* Plus and Product fail (Go: index out of range) exactly on an empty first / second argument *)
Theorem plus_product_panic :
  (forall x, plus [] x = Panic ($"index")) /\
  (forall b, product [] b = Panic ($"index")) /\ (forall a, product a [] = Panic ($"index")).
Proof. repeat split; intros; try reflexivity. destruct a; reflexivity. Qed.

(* ------------------------------------------------------------------------------------------ *)
(* statements in the form used by props/C18.v *)

Theorem built_evaluates cs :
  let p := build_from [] cs in
  exists c, evaluate p = Ok c /\ length c = S (length p) /\ (fst (count p) + snd (count p))%nat = length p.
Proof.
  cbv zeta. destruct (evaluate_wf _ (built_wf cs)) as (c & He & Hl & _).
  exists c. split; [exact He|]. split; [exact Hl|apply count_sum].
Qed.

Theorem read_counts_wf p : wf_program p ->
  exists rs, read_counts p = Ok rs /\ length rs = S (length p) /\
             forall i, (i <= length p)%nat -> nth i rs O = nreads p i.
Proof.
  intros Hp. exists (map (nreads p) (seq 0 (S (length p)))).
  split; [apply read_counts_spec, wf_operands_le, Hp|]. split; [now rewrite map_length, seq_length|].
  intros i Hi. rewrite (nth_indep _ O (nreads p O)) by (rewrite map_length, seq_length; lia).
  rewrite map_nth, seq_nth by lia. reflexivity.
Qed.
