(* C14 consequence of the chain growth bound (proofs/ChainBounds.v): every row (cost, doubles, adds)
   of the table that a consistent search report prints for target n satisfies
   log2_up n <= doubles + adds -- the report can never claim fewer operations than doubling allows. *)
From Coq Require Import String.
From Coq Require Import List NArith ZArith Lia Bool Arith QArith.
From AV Require Import model.Proto model.Chain model.Program model.Search.
From AV Require Import proofs.ChainProofs proofs.ChainBounds proofs.SearchMain.
Import ListNotations.
Open Scope Z_scope.

Lemma filter_partition_length {A} (f : A -> bool) l :
  (length (filter f l) + length (filter (fun x => negb (f x)) l))%nat = length l.
Proof.
  induction l as [|x l IH]; [reflexivity|]. cbn [filter]. destruct (f x); cbn [negb length]; lia.
Qed.

Lemma count_total p : (fst (count p) + snd (count p))%nat = length p.
Proof. unfold count. cbn [fst snd]. apply filter_partition_length. Qed.

Lemma good_ares_ops_bound n r : good_ares n r -> Z.log2_up n <= Z.of_nat (length (ar_prog r)).
Proof.
  intros (_ & Hc & Hl & Hp & _). rewrite Hp. now apply chain_length_lower_bound.
Qed.

Theorem table_lower_bound w n rs o :
  Forall (good_ares n) rs -> consistent_report w n rs o ->
  forall q d a, In (q, (d, a)) (so_table o) -> Z.log2_up n <= Z.of_nat (d + a).
Proof.
  intros Hg (_ & _ & Ht & _) q d a Hin. rewrite Ht in Hin.
  apply in_map_iff in Hin as (r & E & Hr). injection E as _ Ed Ea.
  rewrite Forall_forall in Hg. pose proof (good_ares_ops_bound n r (Hg r Hr)) as B.
  pose proof (count_total (ar_prog r)) as T. unfold count in T. cbn [fst snd] in T. lia.
Qed.
