(* Fuel adequacy of the parser model: with the fuel the entry point passes (input length + 1 for the
   nesting depth, remaining length + 1 for each loop) the parser never reports PFuel, so
   parse s <> OutOfFuel for every input: no parse result is an artefact of truncation. *)
From Coq Require Import List NArith ZArith Lia Bool Arith.
From AV Require Import model.Proto model.Ast model.Printer model.Peg proofs.PegBasics.
Import ListNotations.
Open Scope N_scope.

(* ---------- inversion with arbitrary flags ---------- *)
Lemma por_inv {A} e (p : pres A) f a r : por e p = PGot f a r -> exists f', p = PGot f' a r.
Proof. destruct p; cbn [por]; try discriminate. intros H. injection H as _ <- <-. eauto. Qed.
Lemma por_fuel {A} e (p : pres A) : por e p = PFuel -> p = PFuel.
Proof. destruct p; cbn [por]; try discriminate. reflexivity. Qed.
Lemma pbind_inv {A B} (p : pres A) (k : A -> list N -> pres B) f b r :
  pbind p k = PGot f b r -> exists e a r1 f', p = PGot e a r1 /\ k a r1 = PGot f' b r.
Proof. destruct p as [e|e a r1|]; cbn [pbind]; try discriminate. intros H. apply por_inv in H as (f' & H). eauto 6. Qed.
Lemma pbind_fuel {A B} (p : pres A) (k : A -> list N -> pres B) :
  pbind p k = PFuel -> p = PFuel \/ exists e a r1, p = PGot e a r1 /\ k a r1 = PFuel.
Proof. destruct p as [e|e a r1|]; cbn [pbind]; try discriminate; [|auto]. intros H. apply por_fuel in H. right. eauto. Qed.
Lemma palt_inv {A} (p : pres A) q f a r :
  palt p q = PGot f a r -> (exists f', p = PGot f' a r) \/ (exists f', q tt = PGot f' a r).
Proof. destruct p as [e|e a' r'|]; cbn [palt]; try discriminate; [|intros H; injection H as <- <- <-; eauto]. intros H. apply por_inv in H. auto. Qed.
Lemma palt_fuel {A} (p : pres A) q : palt p q = PFuel -> p = PFuel \/ q tt = PFuel.
Proof. destruct p as [e|e a' r'|]; cbn [palt]; try discriminate; [|auto]. intros H. apply por_fuel in H. auto. Qed.

(* ---------- how much input the lexical rules leave ---------- *)
Lemma lit_lt l s r : l <> [] -> lit l s = Some r -> (length r < length s)%nat.
Proof. intros Hl H. apply lit_length in H. destruct l; [congruence|]. simpl in H. lia. Qed.

Lemma p_ident_lt s n r : p_ident s = Some (n, r) -> (length r < length s)%nat.
Proof.
  unfold p_ident. destruct s as [|c t]; [discriminate|]. destruct (is_alpha_ c); [|discriminate].
  destruct (span is_idc t) as [a b] eqn:E. intros H. injection H as <- <-.
  apply span_spec in E as (-> & _). cbn [length]. rewrite app_length. lia.
Qed.

Lemma span_le p s a b : span p s = (a, b) -> (length b <= length s)%nat.
Proof. intros H. apply span_spec in H as (-> & _). rewrite app_length. lia. Qed.

Lemma lit_text_le s t r : lit_text s = Some (t, r) -> (length r <= length s)%nat.
Proof.
  assert (Hsp : forall p x a b, span p x = (a, b) -> (length b <= length x)%nat) by (intros; eapply span_le; eauto).
  unfold lit_text. destruct (lit_hex s) as [[t1 r1]|] eqn:E1.
  - intros H. injection H as <- <-. unfold lit_hex in E1. destruct s as [|c1 [|c2 r0]]; try discriminate.
    destruct ((c1 =? 48) && (c2 =? 120)); [|discriminate].
    destruct (span is_hexdigit r0) as [a b] eqn:Es. destruct a; [discriminate|]. injection E1 as _ <-.
    apply Hsp in Es. simpl. lia.
  - destruct (lit_oct s) as [[t2 r2]|] eqn:E2.
    + intros H. injection H as <- <-. unfold lit_oct in E2. destruct s as [|c1 r0]; [discriminate|].
      destruct (c1 =? 48); [|discriminate].
      destruct (span is_octdigit r0) as [a b] eqn:Es. destruct a; [discriminate|]. injection E2 as _ <-.
      apply Hsp in Es. simpl. lia.
    + unfold lit_dec. destruct (span is_digit s) as [a b] eqn:Es. destruct a; [discriminate|]. intros H. injection H as _ <-.
      eapply Hsp; eauto.
Qed.

Lemma p_uint_le s f v r : p_uint s = PGot f v r -> (length r <= length s)%nat.
Proof.
  unfold p_uint. destruct (lit_text s) as [[t r']|] eqn:E; [|discriminate].
  apply lit_text_le in E. destruct (parse_uint_go t); intros H; injection H as _ _ <-; exact E.
Qed.
Lemma p_uint_nofuel s : p_uint s <> PFuel.
Proof. unfold p_uint. destruct (lit_text s) as [[t r']|]; [destruct (parse_uint_go t)|]; discriminate. Qed.

Lemma oalt_some {A} (a b : option A) x : oalt a b = Some x -> a = Some x \/ b = Some x.
Proof. destruct a; cbn [oalt]; auto. Qed.

Lemma p_addop_lt s r : p_addop s = Some r -> (length r < length s)%nat.
Proof. unfold p_addop. intros H. apply oalt_some in H as [H|H]; eapply lit_lt; eauto; discriminate. Qed.
Lemma p_shiftop_lt s r : p_shiftop s = Some r -> (length r < length s)%nat.
Proof. unfold p_shiftop. intros H. apply oalt_some in H as [H|H]; eapply lit_lt; eauto; discriminate. Qed.
Lemma p_dblop_lt s r : p_dblop s = Some r -> (length r < length s)%nat.
Proof.
  unfold p_dblop. intros H. apply oalt_some in H as [H|H]; [|eapply lit_lt; eauto; discriminate].
  destruct (lit [50] s) as [r1|] eqn:E1; [|discriminate].
  apply lit_lt in E1; [|discriminate]. apply lit_lt in H; [|discriminate]. pose proof (skipws_length r1). lia.
Qed.

Lemma p_index_le s f e r : p_index s = PGot f e r -> (length r <= length s)%nat.
Proof.
  unfold p_index. destruct (lit [91] s) as [r1|] eqn:E1; [|discriminate]. apply lit_lt in E1; [|discriminate].
  intros H. apply pbind_inv in H as (e1 & v & r2 & f' & Hu & H). apply p_uint_le in Hu.
  destruct (lit [93] (skipws r2)) as [r3|] eqn:E3; [|discriminate]. apply lit_lt in E3; [|discriminate].
  injection H as _ _ <-. pose proof (skipws_length r1). pose proof (skipws_length r2). lia.
Qed.
Lemma p_index_nofuel s : p_index s <> PFuel.
Proof.
  unfold p_index. destruct (lit [91] s); [|discriminate]. intros H. apply pbind_fuel in H as [H|(e & v & r1 & _ & H)].
  - now apply p_uint_nofuel in H.
  - destruct (lit [93] (skipws r1)); discriminate.
Qed.

Lemma p_operand_le s f e r : p_operand s = PGot f e r -> (length r <= length s)%nat.
Proof.
  unfold p_operand. destruct (lit [49] s) as [r1|] eqn:E1.
  - apply lit_lt in E1; [|discriminate]. intros H. injection H as _ _ <-. lia.
  - intros H. apply palt_inv in H as [(f' & H)|(f' & H)]; [eapply p_index_le; eauto|].
    destruct (p_ident s) as [[n r1]|] eqn:Ei; [|discriminate]. injection H as _ _ <-. apply p_ident_lt in Ei. lia.
Qed.
Lemma p_operand_nofuel s : p_operand s <> PFuel.
Proof.
  unfold p_operand. destruct (lit [49] s); [discriminate|]. intros H. apply palt_fuel in H as [H|H].
  - now apply p_index_nofuel in H.
  - destruct (p_ident s) as [[n r]|]; discriminate.
Qed.

(* ---------- expressions ---------- *)
Section Fuel.
Variable pe : list N -> pres expr.
Variable K : nat.
Hypothesis Hlen : forall s f e r, pe s = PGot f e r -> (length r <= length s)%nat.
Hypothesis Hfuel : forall s, (length s < K)%nat -> pe s <> PFuel.

Lemma p_paren_le s f e r : p_paren pe s = PGot f e r -> (length r <= length s)%nat.
Proof using Hlen.
  unfold p_paren. destruct (lit [40] s) as [r1|] eqn:E1; [|discriminate]. apply lit_lt in E1; [|discriminate].
  intros H. apply pbind_inv in H as (e1 & x & r2 & f' & Hp & H). apply Hlen in Hp.
  destruct (lit [41] (skipws r2)) as [r3|] eqn:E3; [|discriminate]. apply lit_lt in E3; [|discriminate].
  injection H as _ _ <-. pose proof (skipws_length r1). pose proof (skipws_length r2). lia.
Qed.
Lemma p_paren_nofuel s : (length s <= K)%nat -> p_paren pe s <> PFuel.
Proof using Hfuel.
  intros Hs. unfold p_paren. destruct (lit [40] s) as [r1|] eqn:E1; [|discriminate]. apply lit_lt in E1; [|discriminate].
  intros H. apply pbind_fuel in H as [H|(e & x & r2 & _ & H)].
  - revert H. apply Hfuel. pose proof (skipws_length r1). lia.
  - destruct (lit [41] (skipws r2)); discriminate.
Qed.

Lemma p_base_le s f e r : p_base pe s = PGot f e r -> (length r <= length s)%nat.
Proof using Hlen.
  unfold p_base. intros H. apply palt_inv in H as [(f' & H)|(f' & H)]; [eapply p_paren_le; eauto|eapply p_operand_le; eauto].
Qed.
Lemma p_base_nofuel s : (length s <= K)%nat -> p_base pe s <> PFuel.
Proof using Hfuel.
  intros Hs H. unfold p_base in H. apply palt_fuel in H as [H|H]; [now apply p_paren_nofuel in H|now apply p_operand_nofuel in H].
Qed.

Lemma p_shift_le s f e r : p_shift pe s = PGot f e r -> (length r <= length s)%nat.
Proof using Hlen.
  unfold p_shift. intros H. pose proof (skipws_length s) as Hs.
  apply palt_inv in H as [(f' & H)|(f' & H)].
  - apply pbind_inv in H as (e1 & x & r1 & f1 & Hb & H). apply p_base_le in Hb.
    destruct (p_shiftop (skipws r1)) as [r2|] eqn:E2; [|discriminate]. apply p_shiftop_lt in E2.
    apply pbind_inv in H as (e2 & n & r3 & f2 & Hu & H). apply p_uint_le in Hu. injection H as _ _ <-.
    pose proof (skipws_length r1). pose proof (skipws_length r2). pose proof (skipws_length r3). lia.
  - apply palt_inv in H as [(f1 & H)|(f1 & H)].
    + destruct (p_dblop (skipws s)) as [r1|] eqn:E1; [|discriminate]. apply p_dblop_lt in E1.
      apply pbind_inv in H as (e1 & x & r2 & f2 & Hb & H). apply p_base_le in Hb. injection H as _ _ <-.
      pose proof (skipws_length r1). lia.
    + eapply p_base_le; eauto.
Qed.
Lemma p_shift_nofuel s : (length s <= K)%nat -> p_shift pe s <> PFuel.
Proof using Hfuel.
  intros Hs H. unfold p_shift in H. pose proof (skipws_length s) as Hsk.
  apply palt_fuel in H as [H|H].
  - apply pbind_fuel in H as [H|(e & x & r1 & _ & H)]; [revert H; apply p_base_nofuel; lia|].
    destruct (p_shiftop (skipws r1)); [|discriminate].
    apply pbind_fuel in H as [H|(e2 & n & r3 & _ & H)]; [now apply p_uint_nofuel in H|discriminate].
  - apply palt_fuel in H as [H|H].
    + destruct (p_dblop (skipws s)) as [r1|] eqn:E1; [|discriminate]. apply p_dblop_lt in E1.
      apply pbind_fuel in H as [H|(e & x & r2 & _ & H)]; [|discriminate].
      revert H. apply p_base_nofuel. pose proof (skipws_length r1). lia.
    + revert H. now apply p_base_nofuel.
Qed.

Lemma p_addrest_le n : forall e0 acc s f e r, p_addrest pe n e0 acc s = PGot f e r -> (length r <= length s)%nat.
Proof using Hlen.
  induction n as [|n IH]; intros e0 acc s f e r H; [discriminate|]. cbn [p_addrest] in H.
  destruct (p_addop (skipws s)) as [r1|] eqn:E1.
  - apply p_addop_lt in E1. destruct (p_shift pe (skipws r1)) as [g|g y r2|] eqn:Es; [| |discriminate].
    + injection H as _ _ <-. lia.
    + apply p_shift_le in Es. apply IH in H. pose proof (skipws_length s). pose proof (skipws_length r1). lia.
  - injection H as _ _ <-. lia.
Qed.
Lemma p_addrest_nofuel n : forall e0 acc s, (length s < n)%nat -> (length s <= K)%nat -> p_addrest pe n e0 acc s <> PFuel.
Proof using Hlen Hfuel.
  induction n as [|n IH]; intros e0 acc s Hn Hk; [lia|]. cbn [p_addrest].
  destruct (p_addop (skipws s)) as [r1|] eqn:E1; [|discriminate]. apply p_addop_lt in E1.
  pose proof (skipws_length s). pose proof (skipws_length r1).
  destruct (p_shift pe (skipws r1)) as [g|g y r2|] eqn:Es; [discriminate| |].
  - apply p_shift_le in Es. apply IH; lia.
  - exfalso. revert Es. apply p_shift_nofuel. lia.
Qed.

Lemma p_add_le s f e r : p_add pe s = PGot f e r -> (length r <= length s)%nat.
Proof using Hlen.
  unfold p_add. intros H. apply pbind_inv in H as (e1 & x & r1 & f1 & Hs & H). apply p_shift_le in Hs.
  apply pbind_inv in H as (e2 & y & r2 & f2 & Ha & H). apply p_addrest_le in Ha. injection H as _ _ <-.
  pose proof (skipws_length s). pose proof (skipws_length r2). lia.
Qed.
Lemma p_add_nofuel s : (length s <= K)%nat -> p_add pe s <> PFuel.
Proof using Hlen Hfuel.
  intros Hs H. unfold p_add in H. pose proof (skipws_length s).
  apply pbind_fuel in H as [H|(e & x & r1 & Hx & H)]; [revert H; apply p_shift_nofuel; lia|].
  apply p_shift_le in Hx.
  apply pbind_fuel in H as [H|(e2 & y & r2 & _ & H)]; [|discriminate].
  revert H. apply p_addrest_nofuel; lia.
Qed.
End Fuel.

Lemma p_expr_le f : forall s g e r, p_expr f s = PGot g e r -> (length r <= length s)%nat.
Proof.
  induction f as [|f IH]; intros s g e r H; [discriminate|]. cbn [p_expr] in H. eapply p_add_le; eauto.
Qed.
Lemma p_expr_nofuel f : forall s, (length s < f)%nat -> p_expr f s <> PFuel.
Proof.
  induction f as [|f IH]; intros s Hs; [lia|]. cbn [p_expr].
  apply (p_add_nofuel (p_expr f) f (p_expr_le f) IH). lia.
Qed.

(* ---------- statements ---------- *)
Lemma p_assignment_lt f s g st r : p_assignment (p_expr f) s = PGot g st r -> (length r < length s)%nat.
Proof.
  unfold p_assignment. destruct (p_ident (skipws s)) as [[n r1]|] eqn:Ei; [|discriminate]. apply p_ident_lt in Ei.
  destruct (lit [61] (skipws r1)) as [r2|] eqn:E2; [|discriminate]. apply lit_lt in E2; [|discriminate].
  intros H. apply pbind_inv in H as (e1 & x & r3 & f1 & He & H). apply p_expr_le in He.
  destruct (lit [10] (skipws r3)) as [r4|] eqn:E4; [|discriminate]. apply lit_lt in E4; [|discriminate].
  injection H as _ _ <-.
  pose proof (skipws_length s). pose proof (skipws_length r1). pose proof (skipws_length r2). pose proof (skipws_length r3). lia.
Qed.
Lemma p_assignment_nofuel f s : (length s < f)%nat -> p_assignment (p_expr f) s <> PFuel.
Proof.
  intros Hs. unfold p_assignment. destruct (p_ident (skipws s)) as [[n r1]|] eqn:Ei; [|discriminate]. apply p_ident_lt in Ei.
  destruct (lit [61] (skipws r1)) as [r2|] eqn:E2; [|discriminate]. apply lit_lt in E2; [|discriminate].
  intros H. apply pbind_fuel in H as [H|(e & x & r3 & _ & H)].
  - revert H. apply p_expr_nofuel.
    pose proof (skipws_length s). pose proof (skipws_length r1). pose proof (skipws_length r2). lia.
  - destruct (lit [10] (skipws r3)); discriminate.
Qed.

Lemma p_return_nofuel f s : (length s < f)%nat -> p_return (p_expr f) s <> PFuel.
Proof.
  intros Hs. unfold p_return. pose proof (skipws_length s) as H1.
  set (s2 := match lit kw_return (skipws s) with Some (c :: r) => if is_ws c then skipws r else skipws s | _ => skipws s end).
  assert (H2 : (length s2 <= length s)%nat).
  { unfold s2. destruct (lit kw_return (skipws s)) as [[|c r]|] eqn:E; try lia.
    destruct (is_ws c); [|lia]. apply lit_length in E. pose proof (skipws_length r). simpl in E. lia. }
  intros H. apply pbind_fuel in H as [H|(e & x & r & _ & H)]; [|discriminate].
  revert H. apply p_expr_nofuel. lia.
Qed.

Lemma p_assignments_le f n : forall s g l r, p_assignments (p_expr f) n s = PGot g l r -> (length r <= length s)%nat.
Proof.
  induction n as [|n IH]; intros s g l r H; [discriminate|]. cbn [p_assignments] in H.
  destruct (p_assignment (p_expr f) s) as [e|e a r1|] eqn:Ea; [| |discriminate].
  - injection H as _ _ <-. lia.
  - apply p_assignment_lt in Ea. destruct (p_assignments (p_expr f) n r1) as [h|h l1 r2|] eqn:El; try discriminate.
    injection H as _ _ <-. apply IH in El. lia.
Qed.
Lemma p_assignments_nofuel f n : forall s, (length s < n)%nat -> (length s < f)%nat -> p_assignments (p_expr f) n s <> PFuel.
Proof.
  induction n as [|n IH]; intros s Hn Hf; [lia|]. cbn [p_assignments].
  destruct (p_assignment (p_expr f) s) as [e|e a r1|] eqn:Ea; [discriminate| |].
  - apply p_assignment_lt in Ea. specialize (IH r1 ltac:(lia) ltac:(lia)).
    destruct (p_assignments (p_expr f) n r1); try discriminate. congruence.
  - exfalso. revert Ea. now apply p_assignment_nofuel.
Qed.

Lemma p_chain_nofuel s : p_chain (S (length s)) s <> PFuel.
Proof.
  intros E. unfold p_chain in E. cbv zeta in E.
  apply pbind_fuel in E as [E|(e & l & r1 & Hl & E)].
  - revert E. apply p_assignments_nofuel; lia.
  - apply p_assignments_le in Hl.
    apply pbind_fuel in E as [E|(e2 & ret & r2 & _ & E)].
    + revert E. apply p_return_nofuel. lia.
    + destruct (skipws r2); discriminate.
Qed.

Theorem parse_fuel_adequate s : parse s <> OutOfFuel.
Proof.
  unfold parse. pose proof (p_chain_nofuel s) as H.
  destruct (p_chain (S (length s)) s) as [e|e c r|]; [discriminate|destruct e; discriminate|congruence].
Qed.

(* ---------- more fuel, same result ---------- *)
Definition agree {A} (pe pe' : list N -> pres A) : Prop := forall s, pe s <> PFuel -> pe' s = pe s.

Lemma por_nofuel {A} e (p : pres A) : por e p <> PFuel -> p <> PFuel.
Proof. intros H E. subst p. apply H. reflexivity. Qed.

Lemma pbind_agree {A B} (p p' : pres A) (k k' : A -> list N -> pres B) :
  pbind p k <> PFuel -> (p <> PFuel -> p' = p) -> (forall a r, k a r <> PFuel -> k' a r = k a r) ->
  pbind p' k' = pbind p k.
Proof.
  intros H Hp Hk. assert (Hn : p <> PFuel) by (intros ->; apply H; reflexivity). rewrite (Hp Hn).
  destruct p as [e|e a r|]; cbn [pbind] in *; [reflexivity| |congruence].
  rewrite Hk; [reflexivity|]. eapply por_nofuel; eauto.
Qed.
Lemma palt_agree {A} (p p' : pres A) q q' :
  palt p q <> PFuel -> (p <> PFuel -> p' = p) -> (q tt <> PFuel -> q' tt = q tt) -> palt p' q' = palt p q.
Proof.
  intros H Hp Hq. assert (Hn : p <> PFuel) by (intros ->; apply H; reflexivity). rewrite (Hp Hn).
  destruct p as [e|e a r|]; cbn [palt] in *; [|reflexivity|congruence].
  rewrite Hq; [reflexivity|]. eapply por_nofuel; eauto.
Qed.

Section Agree.
Variables pe pe' : list N -> pres expr.
Hypothesis Hag : agree pe pe'.

Lemma p_paren_agree : agree (p_paren pe) (p_paren pe').
Proof using Hag.
  intros s H. unfold p_paren in *. destruct (lit [40] s) as [r|]; [|reflexivity].
  apply pbind_agree; [exact H|apply Hag|auto].
Qed.
Lemma p_base_agree : agree (p_base pe) (p_base pe').
Proof using Hag.
  intros s H. unfold p_base in *. apply palt_agree; [exact H|apply p_paren_agree|auto].
Qed.
Lemma p_shift_agree : agree (p_shift pe) (p_shift pe').
Proof using Hag.
  intros s H. unfold p_shift in *. apply palt_agree; [exact H| |].
  - intros H1. apply pbind_agree; [exact H1|apply p_base_agree|auto].
  - intros H2. apply palt_agree; [exact H2| |apply p_base_agree].
    destruct (p_dblop (skipws s)) as [r|]; [|reflexivity]. intros H3.
    apply pbind_agree; [exact H3|apply p_base_agree|auto].
Qed.
Lemma p_addrest_agree n : forall e acc s, p_addrest pe n e acc s <> PFuel -> p_addrest pe' n e acc s = p_addrest pe n e acc s.
Proof using Hag.
  induction n as [|n IH]; intros e acc s H; [reflexivity|]. cbn [p_addrest] in *.
  destruct (p_addop (skipws s)) as [r|]; [|reflexivity].
  assert (Hs : p_shift pe (skipws r) <> PFuel) by (intros E; rewrite E in H; apply H; reflexivity).
  rewrite (p_shift_agree _ Hs). destruct (p_shift pe (skipws r)) as [f|f y r2|]; [reflexivity| |reflexivity].
  now apply IH.
Qed.
Lemma p_add_agree : agree (p_add pe) (p_add pe').
Proof using Hag.
  intros s H. unfold p_add in *. apply pbind_agree; [exact H|apply p_shift_agree|].
  intros x r H1. apply pbind_agree; [exact H1|apply p_addrest_agree|auto].
Qed.

Lemma p_assignment_agree : agree (p_assignment pe) (p_assignment pe').
Proof using Hag.
  intros s H. unfold p_assignment in *. destruct (p_ident (skipws s)) as [[n r]|]; [|reflexivity].
  destruct (lit [61] (skipws r)) as [r2|]; [|reflexivity]. apply pbind_agree; [exact H|apply Hag|auto].
Qed.
Lemma p_return_agree : agree (p_return pe) (p_return pe').
Proof using Hag.
  intros s H. unfold p_return in *. apply pbind_agree; [exact H|apply Hag|auto].
Qed.
Lemma p_assignments_agree n : agree (p_assignments pe n) (p_assignments pe' n).
Proof using Hag.
  induction n as [|n IH]; intros s H; [reflexivity|]. cbn [p_assignments] in *.
  assert (Ha : p_assignment pe s <> PFuel) by (intros E; rewrite E in H; apply H; reflexivity).
  rewrite (p_assignment_agree _ Ha). destruct (p_assignment pe s) as [f|f a r|]; [reflexivity| |reflexivity].
  assert (Hr : p_assignments pe n r <> PFuel) by (intros E; rewrite E in H; apply H; reflexivity).
  now rewrite (IH _ Hr).
Qed.
End Agree.

Lemma p_expr_step f : agree (p_expr f) (p_expr (S f)).
Proof.
  induction f as [|f IH]; intros s H; [exfalso; apply H; reflexivity|].
  change (p_add (p_expr (S f)) s = p_add (p_expr f) s). apply p_add_agree; [exact IH|exact H].
Qed.
Lemma p_expr_mono f k : agree (p_expr f) (p_expr (f + k)).
Proof.
  induction k as [|k IH]; intros s H; [now rewrite Nat.add_0_r|].
  rewrite Nat.add_succ_r. rewrite (p_expr_step (f + k)); [now apply IH|]. rewrite (IH s H). exact H.
Qed.

(* any fuel from length + 1 upwards gives the same answer as the one the entry point passes *)
Theorem p_chain_fuel_mono s f : (S (length s) <= f)%nat -> p_chain f s = p_chain (S (length s)) s.
Proof.
  intros Hf. replace f with (S (length s) + (f - S (length s)))%nat by lia.
  set (f0 := S (length s)). set (k := (f - f0)%nat).
  pose proof (p_chain_nofuel s) as Hn. fold f0 in Hn. unfold p_chain in *. cbv zeta in *.
  pose proof (p_expr_mono f0 k) as Hag.
  apply pbind_agree; [exact Hn|apply p_assignments_agree; exact Hag|].
  intros l r H1. apply pbind_agree; [exact H1|apply p_return_agree; exact Hag|auto].
Qed.
