(* LOCAL COPY, TO BE UNIFIED AFTER THE MERGE with coq/model/Translate.v (branch c07c03).
   Model of acc.Translate (translate.go: state.statement/expr/add/double/shift/define/lookup),
   ported from proto_appendix/J1.v to the shared Ast/Ir types, followed by pass.Compile
   (model/Naming.v).  It exists so that `build_translate` (Build followed by Translate gives
   back the instruction list) can be stated and proved on this branch.  Only indexes are
   tracked for operands: pass.Compile reads nothing else.  The conversion int(sh.S) of a
   shift amount >= 2^63 (wrap-around) is not modelled here: Build never produces one.
   Also a local copy of the well-formedness predicate of the C07 round-trip theorem
   (wf_script, text supplied by c07c03). *)
From Coq Require Import String.
From Coq Require Import List NArith ZArith Bool Arith.
From AV Require Import model.Proto model.Chain model.Program model.Ir model.Ast model.Naming.
Import ListNotations.
Open Scope Z_scope.

Fixpoint slookup (k : list N) (m : list (list N * Z)) : option Z :=
  match m with
  | [] => None
  | (k', v) :: t => if str_eqb k' k then Some v else slookup k t
  end.

(* state: n, variable, prog.Instructions *)
Record tstate := mkT { t_n : Z; t_vars : list (list N * Z); t_emitted : iprogram }.
Definition t_init : tstate := mkT 1 [] [].

Definition t_emit (st : tstate) (o : iop) (out : Z) (n' : Z) : Z * tstate :=
  (out, mkT n' (t_vars st) (t_emitted st ++ [mkInstr (index_operand out) o])).

Fixpoint tr_expr (e : expr) (st : tstate) : outcome (Z * tstate) :=
  match e with
  | EOperand i => Ok (i, st)
  | EIdent s => match slookup s (t_vars st) with Some i => Ok (i, st) | None => Err ($"undefined") end
  | EAdd x y =>
      obind (tr_expr x st) (fun '(ix, st1) =>
      obind (tr_expr y st1) (fun '(iy, st2) =>
        let '(a, b) := if iy <? ix then (iy, ix) else (ix, iy) in
        Ok (t_emit st2 (IAdd (index_operand a) (index_operand b)) (t_n st2) (t_n st2 + 1))))
  | EDouble x =>
      obind (tr_expr x st) (fun '(ix, st1) =>
        Ok (t_emit st1 (IDouble (index_operand ix)) (t_n st1) (t_n st1 + 1)))
  | EShift x s =>
      obind (tr_expr x st) (fun '(ix, st1) =>
        if (s =? 0)%N then Ok (ix, st1)
        else Ok (t_emit st1 (IShift (index_operand ix) s) (t_n st1 + Z.of_N s - 1) (t_n st1 + Z.of_N s)))
  end.

Definition tr_stmt (st : tstate) (s : stmt) : outcome tstate :=
  obind (tr_expr (sexpr s) st) (fun '(i, st1) =>
    match slookup (sname s) (t_vars st1) with
    | Some _ => Err ($"redefine")
    | None => Ok (mkT (t_n st1) ((sname s, i) :: t_vars st1) (t_emitted st1))
    end).

Fixpoint tr_stmts (ss : list stmt) (st : tstate) : outcome tstate :=
  match ss with
  | [] => Ok st
  | s :: r => obind (tr_stmt st s) (fun st1 => tr_stmts r st1)
  end.

Definition translate (t : script) : outcome iprogram :=
  obind (tr_stmts t t_init) (fun st => Ok (t_emitted st)).

Definition translate_compile (t : script) : outcome (list op) := obind (translate t) compile.

(* LoadString after the parser: Translate, Compile, Evaluate *)
Definition translate_eval (t : script) : outcome (list op * list Z) :=
  obind (translate_compile t) (fun p => obind (evaluate p) (fun c => Ok (p, c))).

(* the element each statement denotes: (name, chain index of its value), in statement order *)
Definition stmt_bindings (t : script) : outcome (list (list N * Z)) :=
  obind (tr_stmts t t_init) (fun st => Ok (rev (t_vars st))).

(* ---- hypothesis of the C07 round-trip theorem (local copy of Printer.wf_script) ---- *)
Definition is_alpha_ (c : N) : bool :=
  (((97 <=? c) && (c <=? 122)) || ((65 <=? c) && (c <=? 90)) || (c =? 95))%N.
Definition is_digit (c : N) : bool := ((48 <=? c) && (c <=? 57))%N.
Definition is_idc (c : N) : bool := is_alpha_ c || is_digit c.
Definition ident_ok (s : list N) : bool :=
  match s with c :: r => is_alpha_ c && forallb is_idc r | [] => false end.
(* "dbl" followed by a letter, '_' or '1' (finding K1) *)
Definition dbl_class (s : list N) : bool :=
  match s with
  | c1 :: c2 :: c3 :: c :: _ => ((c1 =? 100) && (c2 =? 98) && (c3 =? 108) && (is_alpha_ c || (c =? 49)))%N
  | _ => false
  end.
Fixpoint wf_expr (sh : bool) (e : expr) : bool :=
  match e with
  | EOperand i => (0 <=? i) && (i <? 2 ^ 63)
  | EIdent s => ident_ok s && negb (sh && dbl_class s)
  | EAdd x y => wf_expr true x && wf_expr true y
  | EShift x s => wf_expr false x && (s <? 2 ^ 64)%N
  | EDouble x => wf_expr false x
  end.
Fixpoint wf_script (c : script) : bool :=
  match c with
  | [] => false
  | [s] => match sname s with [] => wf_expr true (sexpr s) | _ => false end
  | s :: r => ident_ok (sname s) && wf_expr true (sexpr s) && wf_script r
  end.
