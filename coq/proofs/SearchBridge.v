(* C14, part 2: the text layer under C04.

   C04 (branch c04c16) proves Build o Decompile against a local, index-only copy of acc.Translate
   (proofs/BuildTranslateAux.v) and leaves "loading the printed text = translating the tree" as a
   hypothesis.  This file discharges it from the models of branch c07c03:
     - the two well-formedness predicates are the same function (wf_script_eq);
     - the index-only translator is simulated by model/Translate.v's object-heap translator, as long
       as the element counter stays below 2^63 (sim_stmts), and the two models of pass.Compile agree on
       success (naming_compile_z);
     - the counter is 1 + the number of compiled operations (aux_cost, compile_len), so the bound is a
       bound on the program length;
     - C07's round trip (PegProofs.roundtrip) removes the printer and the parser.
   Result: aux_load. *)
From Coq Require Import String.
From Coq Require Import List NArith ZArith Lia Bool Arith.
From AV Require Import model.Proto model.Chain model.Ir model.Ast.
From AV Require model.Program model.Naming proofs.BuildTranslateAux.
From AV Require Import model.Printer model.Peg model.Translate
  proofs.TranslateBasics proofs.TranslateProofs proofs.PegProofs.
Import ListNotations.
Open Scope Z_scope.

Module A := AV.proofs.BuildTranslateAux.

(* ---- 1. the well-formedness predicates coincide ---- *)
Lemma wf_expr_eq : forall e sh, A.wf_expr sh e = wf_expr sh e.
Proof.
  induction e as [i|s|x IHx y IHy|x IHx s|x IHx]; intros sh; cbn [A.wf_expr wf_expr].
  - reflexivity.
  - reflexivity.
  - rewrite IHx, IHy. reflexivity.
  - rewrite IHx. reflexivity.
  - apply IHx.
Qed.

Lemma wf_script_eq : forall c, A.wf_script c = wf_script c.
Proof.
  induction c as [|s r IH]; [reflexivity|].
  destruct r as [|s' r'].
  - cbn [A.wf_script wf_script]. destruct (sname s); [apply wf_expr_eq|reflexivity].
  - change (A.wf_script (s :: s' :: r')) with (A.ident_ok (sname s) && A.wf_expr true (sexpr s) && A.wf_script (s' :: r')).
    change (wf_script (s :: s' :: r')) with (ident_ok (sname s) && wf_expr true (sexpr s) && wf_script (s' :: r')).
    rewrite IH, wf_expr_eq. reflexivity.
Qed.

(* ---- 2. name tables ---- *)
Lemma slookup_lookup : forall k (m : list (list N * Z)), A.slookup k m = lookup k m.
Proof.
  intros k m. induction m as [|[k' v] t IH]; [reflexivity|].
  cbn [A.slookup lookup]. rewrite IH. reflexivity.
Qed.

(* ---- 3. element counting in the index-only translator ---- *)
Definition ir_len1 (i : instr) : Z :=
  match iopn i with IShift _ s => Z.of_N s | _ => 1 end.
Definition ir_len (P : iprogram) : Z := fold_right (fun i a => ir_len1 i + a) 0 P.

Lemma ir_len_cons : forall i P, ir_len (i :: P) = ir_len1 i + ir_len P.
Proof. reflexivity. Qed.
Lemma ir_len_app : forall a b, ir_len (a ++ b) = ir_len a + ir_len b.
Proof.
  induction a as [|i a IH]; intros b; [reflexivity|].
  cbn [app]. rewrite !ir_len_cons, IH. lia.
Qed.
Lemma ir_len_one : forall i, ir_len [i] = ir_len1 i.
Proof. intros i. rewrite ir_len_cons. change (ir_len []) with 0. lia. Qed.

Lemma aux_expr_cost : forall e sa i sa', A.tr_expr e sa = Ok (i, sa') ->
  A.t_n sa' = A.t_n sa + expr_cost e /\
  ir_len (A.t_emitted sa') = ir_len (A.t_emitted sa) + expr_cost e /\
  A.t_vars sa' = A.t_vars sa.
Proof.
  induction e as [i0|s|x IHx y IHy|x IHx s|x IHx]; intros sa i sa' H; cbn [A.tr_expr expr_cost] in H |- *.
  - injection H as <- <-. repeat split; lia.
  - destruct (A.slookup s (A.t_vars sa)); [|discriminate]. injection H as <- <-. repeat split; lia.
  - destruct (A.tr_expr x sa) as [[ix s1]| | |] eqn:Ex; cbn [obind] in H; try discriminate.
    destruct (A.tr_expr y s1) as [[iy s2]| | |] eqn:Ey; cbn [obind] in H; try discriminate.
    destruct (IHx _ _ _ Ex) as (N1 & L1 & V1). destruct (IHy _ _ _ Ey) as (N2 & L2 & V2).
    destruct (iy <? ix); unfold A.t_emit in H; injection H as <- <-; cbn [A.t_n A.t_emitted A.t_vars];
      rewrite ir_len_app, ir_len_one; cbn [ir_len1 iopn]; repeat split; try lia; congruence.
  - destruct (A.tr_expr x sa) as [[ix s1]| | |] eqn:Ex; cbn [obind] in H; try discriminate.
    destruct (IHx _ _ _ Ex) as (N1 & L1 & V1).
    destruct (s =? 0)%N eqn:Es.
    + apply N.eqb_eq in Es. injection H as <- <-. repeat split; try lia; congruence.
    + unfold A.t_emit in H. injection H as <- <-. cbn [A.t_n A.t_emitted A.t_vars].
      rewrite ir_len_app, ir_len_one. cbn [ir_len1 iopn]. repeat split; try lia; congruence.
  - destruct (A.tr_expr x sa) as [[ix s1]| | |] eqn:Ex; cbn [obind] in H; try discriminate.
    destruct (IHx _ _ _ Ex) as (N1 & L1 & V1).
    unfold A.t_emit in H. injection H as <- <-. cbn [A.t_n A.t_emitted A.t_vars].
    rewrite ir_len_app, ir_len_one. cbn [ir_len1 iopn]. repeat split; try lia; congruence.
Qed.

Lemma aux_stmt_cost : forall s sa sa', A.tr_stmt sa s = Ok sa' ->
  A.t_n sa' = A.t_n sa + expr_cost (sexpr s) /\
  ir_len (A.t_emitted sa') = ir_len (A.t_emitted sa) + expr_cost (sexpr s).
Proof.
  intros s sa sa' H. unfold A.tr_stmt in H.
  destruct (A.tr_expr (sexpr s) sa) as [[i s1]| | |] eqn:Ex; cbn [obind] in H; try discriminate.
  destruct (aux_expr_cost _ _ _ _ Ex) as (N1 & L1 & _).
  destruct (A.slookup (sname s) (A.t_vars s1)); [discriminate|]. injection H as <-.
  cbn [A.t_n A.t_emitted]. split; assumption.
Qed.

Lemma aux_stmts_cost : forall ss sa sa', A.tr_stmts ss sa = Ok sa' ->
  A.t_n sa' = A.t_n sa + stmts_cost ss /\
  ir_len (A.t_emitted sa') = ir_len (A.t_emitted sa) + stmts_cost ss.
Proof.
  induction ss as [|s ss IH]; intros sa sa' H; cbn [A.tr_stmts stmts_cost fold_right] in H |- *.
  - injection H as <-. lia.
  - fold (stmts_cost ss). destruct (A.tr_stmt sa s) as [s1| | |] eqn:E1; cbn [obind] in H; try discriminate.
    destruct (aux_stmt_cost _ _ _ E1) as (N1 & L1). destruct (IH _ _ H) as (N2 & L2). lia.
Qed.

(* Program builders append exactly one operation per add/double and s per shift *)
Lemma add_length : forall p i j p' r, Program.add p i j = (p', Ok r) -> length p' = S (length p).
Proof.
  intros p i j p' r H. unfold Program.add in H.
  destruct (Program.boundscheck p i) as [[]| | |]; cbn [obind] in H; try (injection H as _ H; discriminate H).
  destruct (Program.boundscheck p j) as [[]| | |]; cbn [obind] in H; try (injection H as _ H; discriminate H).
  injection H as <- _. rewrite app_length. cbn [length]. lia.
Qed.

Lemma shift_loop_length : forall s p i p' r, Program.shift_loop s p i = (p', Ok r) ->
  length p' = (length p + s)%nat.
Proof.
  induction s as [|s IH]; intros p i p' r H; cbn [Program.shift_loop] in H.
  - injection H as <- _. lia.
  - destruct (Program.double p i) as [p1 [n1| | |]] eqn:Ed; try (injection H as _ H; discriminate H).
    unfold Program.double in Ed. apply add_length in Ed. apply IH in H. lia.
Qed.

Lemma step_length : forall p i p' r, Program.step p (Naming.call_of (iopn i)) = (p', Ok r) ->
  Z.of_nat (length p') = Z.of_nat (length p) + ir_len1 i.
Proof.
  intros p i p' r H. unfold ir_len1. destruct (iopn i) as [x y|x|x s]; cbn [Naming.call_of Program.step] in H.
  - apply add_length in H. lia.
  - unfold Program.double in H. apply add_length in H. lia.
  - unfold Program.shift in H. apply shift_loop_length in H. lia.
Qed.

Lemma compile_len : forall P prog ops, Naming.compile_loop prog P = Ok ops ->
  Z.of_nat (length ops) = Z.of_nat (length prog) + ir_len P.
Proof.
  induction P as [|i P IH]; intros prog ops H; cbn [Naming.compile_loop ir_len fold_right] in H |- *.
  - injection H as <-. lia.
  - fold (ir_len P). destruct (Program.step prog (Naming.call_of (iopn i))) as [prog' [out| | |]] eqn:Es; try discriminate.
    destruct (out =? oindex (iout i)); [|discriminate].
    apply step_length in Es. apply IH in H. lia.
Qed.

(* ---- 4. the two models of pass.Compile agree on success ---- *)
Lemma naming_compile_z : forall P prog ops, Naming.compile_loop prog P = Ok ops ->
  compile_z prog (map strip P) = Ok ops.
Proof.
  induction P as [|i P IH]; intros prog ops H; cbn [Naming.compile_loop map compile_z] in H |- *; [exact H|].
  unfold strip at 1.
  assert (E : zstep prog (match iopn i with
                          | IAdd x y => ZAdd (oindex x) (oindex y)
                          | IDouble x => ZDouble (oindex x)
                          | IShift x s => ZShift (oindex x) s
                          end) = Program.step prog (Naming.call_of (iopn i))).
  { destruct (iopn i); reflexivity. }
  rewrite E. destruct (Program.step prog (Naming.call_of (iopn i))) as [prog' [out| | |]]; try discriminate.
  cbn [obind]. destruct (out =? oindex (iout i)); [|discriminate]. apply IH. exact H.
Qed.

(* ---- 5. simulation: index-only translator vs object-heap translator ---- *)
Definition R (sa : A.tstate) (sc : tstate) : Prop :=
  tn sc = A.t_n sa /\ env_rel (tobjs sc) (tvars sc) (A.t_vars sa) /\
  zview (tobjs sc) (tinstrs sc) = Some (map strip (A.t_emitted sa)).

Lemma R_valid : forall sa sc, R sa sc -> valid sc.
Proof.
  intros sa sc (_ & Henv & Hz). split; [|eauto].
  induction Henv as [|a b va ve [_ H] _ IH]; constructor; [eapply idx_lt; eauto|exact IH].
Qed.

Lemma R_emit : forall sa sc oa oc z out n',
  R sa sc -> zop_of (tobjs sc) oc = Some z -> snd (strip (mkInstr (index_operand out) oa)) = z ->
  R (snd (A.t_emit sa oa out n')) (snd (emit sc out n' (fun o => Translate.mkT o oc))) /\
  idx (tobjs (snd (emit sc out n' (fun o => Translate.mkT o oc)))) (fst (emit sc out n' (fun o => Translate.mkT o oc))) = Some out /\
  ext (tobjs sc) (tobjs (snd (emit sc out n' (fun o => Translate.mkT o oc)))).
Proof.
  intros sa sc oa oc z out n' (Hn & Henv & Hz) Ho Hs. split; [split; [|split]|split].
  - reflexivity.
  - cbn [A.t_emit snd A.t_vars emit tobjs tvars]. eapply env_rel_ext; [apply ext_app|exact Henv].
  - rewrite (emit_view sc _ oc out n' z Hz Ho). cbn [A.t_emit snd A.t_emitted]. rewrite map_app. cbn [map].
    f_equal. f_equal. f_equal. rewrite <- Hs. reflexivity.
  - cbn [emit fst snd tobjs]. rewrite idx_new. reflexivity.
  - cbn [emit snd tobjs]. apply ext_app.
Qed.

Lemma sim_expr : forall e sa sc i sa', R sa sc -> 0 <= A.t_n sa -> A.t_n sa + expr_cost e < 2 ^ 63 ->
  A.tr_expr e sa = Ok (i, sa') ->
  exists id sc', t_expr e sc = Ok (id, sc') /\ R sa' sc' /\ idx (tobjs sc') id = Some i /\
                 ext (tobjs sc) (tobjs sc').
Proof.
  induction e as [i0|s|x IHx y IHy|x IHx s|x IHx]; intros sa sc i sa' HR H0 Hb H;
    cbn [A.tr_expr t_expr expr_cost] in H, Hb |- *.
  - injection H as <- <-. destruct HR as (Hn & Henv & Hz).
    exists (length (tobjs sc)), (snd (new_obj sc (index_operand i0))). split; [reflexivity|].
    unfold new_obj. cbn [snd tobjs]. split; [split; [exact Hn|split]|split].
    + cbn [tobjs tvars]. eapply env_rel_ext; [apply ext_app|exact Henv].
    + cbn [tobjs tinstrs]. eapply zview_ext; [apply ext_app|exact Hz].
    + rewrite idx_new. reflexivity.
    + apply ext_app.
  - rewrite slookup_lookup in H. destruct HR as (Hn & Henv & Hz).
    pose proof (env_rel_lookup _ _ _ s Henv) as Hl.
    destruct (lookup s (A.t_vars sa)) as [v|] eqn:El; [|discriminate]. injection H as <- <-.
    destruct (lookup s (tvars sc)) as [id|].
    + destruct Hl as (i' & Hi' & Hidx). injection Hi' as <-.
      exists id, sc. split; [reflexivity|]. split; [split; [exact Hn|split; assumption]|]. split; [exact Hidx|apply ext_refl].
    + discriminate Hl.
  - destruct (A.tr_expr x sa) as [[ix s1]| | |] eqn:Ex; cbn [obind] in H; try discriminate.
    destruct (A.tr_expr y s1) as [[iy s2]| | |] eqn:Ey; cbn [obind] in H; try discriminate.
    destruct (aux_expr_cost _ _ _ _ Ex) as (N1 & _ & _). destruct (aux_expr_cost _ _ _ _ Ey) as (N2 & _ & _).
    pose proof (expr_cost_nonneg x) as Cx. pose proof (expr_cost_nonneg y) as Cy.
    destruct (IHx sa sc ix s1 HR H0 ltac:(lia) Ex) as (idx1 & sc1 & E1 & R1 & I1 & X1).
    destruct (IHy s1 sc1 iy s2 R1 ltac:(lia) ltac:(lia) Ey) as (idx2 & sc2 & E2 & R2 & I2 & X2).
    rewrite E1. cbn [obind]. rewrite E2. cbn [obind].
    pose proof (X2 _ _ I1) as I1'.
    assert (O1 : obj_index sc2 idx1 = Ok ix).
    { unfold obj_index. unfold idx in I1'. destruct (nth_error (tobjs sc2) idx1); [|discriminate]. cbn in I1'. congruence. }
    assert (O2 : obj_index sc2 idx2 = Ok iy).
    { unfold obj_index. unfold idx in I2. destruct (nth_error (tobjs sc2) idx2); [|discriminate]. cbn in I2. congruence. }
    rewrite O1, O2. cbn [obind].
    assert (Hn2 : tn sc2 = A.t_n s2) by apply R2.
    rewrite Hn2. rewrite (wrap64_id (A.t_n s2 + 1)) by lia.
    rewrite Z.gtb_ltb. destruct (iy <? ix).
    + assert (Hzo : zop_of (tobjs sc2) (TAdd idx2 idx1) = Some (ZAdd iy ix)) by (cbn [zop_of]; rewrite I2, I1'; reflexivity).
      destruct (R_emit s2 sc2 (IAdd (index_operand iy) (index_operand ix)) (TAdd idx2 idx1) (ZAdd iy ix) (A.t_n s2) (A.t_n s2 + 1) R2 Hzo eq_refl)
        as (R3 & I3 & X3).
      injection H as <- <-. eexists _, _. split; [reflexivity|].
      split; [exact R3|]. split; [exact I3|]. eapply ext_trans; [exact X1|]. eapply ext_trans; [exact X2|exact X3].
    + assert (Hzo : zop_of (tobjs sc2) (TAdd idx1 idx2) = Some (ZAdd ix iy)) by (cbn [zop_of]; rewrite I2, I1'; reflexivity).
      destruct (R_emit s2 sc2 (IAdd (index_operand ix) (index_operand iy)) (TAdd idx1 idx2) (ZAdd ix iy) (A.t_n s2) (A.t_n s2 + 1) R2 Hzo eq_refl)
        as (R3 & I3 & X3).
      injection H as <- <-. eexists _, _. split; [reflexivity|].
      split; [exact R3|]. split; [exact I3|]. eapply ext_trans; [exact X1|]. eapply ext_trans; [exact X2|exact X3].
  - destruct (A.tr_expr x sa) as [[ix s1]| | |] eqn:Ex; cbn [obind] in H; try discriminate.
    destruct (aux_expr_cost _ _ _ _ Ex) as (N1 & _ & _).
    pose proof (expr_cost_nonneg x) as Cx. pose proof (N2Z.is_nonneg s) as Cs.
    destruct (IHx sa sc ix s1 HR H0 ltac:(lia) Ex) as (idx1 & sc1 & E1 & R1 & I1 & X1).
    rewrite E1. cbn [obind]. destruct (s =? 0)%N.
    + injection H as <- <-. exists idx1, sc1. repeat split; try assumption; apply R1.
    + assert (Hn1 : tn sc1 = A.t_n s1) by apply R1.
      rewrite Hn1. rewrite (wrap64_id (Z.of_N s)) by lia.
      rewrite (wrap64_id (A.t_n s1 + Z.of_N s)) by lia.
      rewrite (wrap64_id (A.t_n s1 + Z.of_N s - 1)) by lia.
      assert (Hzo : zop_of (tobjs sc1) (TShift idx1 s) = Some (ZShift ix s)) by (cbn [zop_of]; rewrite I1; reflexivity).
      destruct (R_emit s1 sc1 (IShift (index_operand ix) s) (TShift idx1 s) (ZShift ix s) (A.t_n s1 + Z.of_N s - 1) (A.t_n s1 + Z.of_N s) R1 Hzo eq_refl)
        as (R3 & I3 & X3).
      injection H as <- <-. eexists _, _. split; [reflexivity|].
      split; [exact R3|]. split; [exact I3|]. eapply ext_trans; [exact X1|exact X3].
  - destruct (A.tr_expr x sa) as [[ix s1]| | |] eqn:Ex; cbn [obind] in H; try discriminate.
    destruct (aux_expr_cost _ _ _ _ Ex) as (N1 & _ & _).
    pose proof (expr_cost_nonneg x) as Cx.
    destruct (IHx sa sc ix s1 HR H0 ltac:(lia) Ex) as (idx1 & sc1 & E1 & R1 & I1 & X1).
    rewrite E1. cbn [obind].
    assert (Hn1 : tn sc1 = A.t_n s1) by apply R1.
    rewrite Hn1. rewrite (wrap64_id (A.t_n s1 + 1)) by lia.
    assert (Hzo : zop_of (tobjs sc1) (TDouble idx1) = Some (ZDouble ix)) by (cbn [zop_of]; rewrite I1; reflexivity).
    destruct (R_emit s1 sc1 (IDouble (index_operand ix)) (TDouble idx1) (ZDouble ix) (A.t_n s1) (A.t_n s1 + 1) R1 Hzo eq_refl)
      as (R3 & I3 & X3).
    injection H as <- <-. eexists _, _. split; [reflexivity|].
    split; [exact R3|]. split; [exact I3|]. eapply ext_trans; [exact X1|exact X3].
Qed.

Lemma sim_stmt : forall s sa sc sa', R sa sc -> 0 <= A.t_n sa -> A.t_n sa + expr_cost (sexpr s) < 2 ^ 63 ->
  A.tr_stmt sa s = Ok sa' -> exists sc', t_stmt sc s = Ok sc' /\ R sa' sc'.
Proof.
  intros s sa sc sa' HR H0 Hb H. unfold A.tr_stmt in H. unfold t_stmt.
  destruct (A.tr_expr (sexpr s) sa) as [[i s1]| | |] eqn:Ex; cbn [obind] in H; try discriminate.
  destruct (sim_expr _ _ _ _ _ HR H0 Hb Ex) as (id & sc1 & E1 & (Hn & Henv & Hz) & I1 & _).
  rewrite E1. cbn [obind]. unfold define.
  rewrite slookup_lookup in H. pose proof (env_rel_lookup _ _ _ (sname s) Henv) as Hl.
  destruct (lookup (sname s) (A.t_vars s1)) eqn:El; [discriminate|]. injection H as <-.
  destruct (lookup (sname s) (tvars sc1)).
  - destruct Hl as (i' & Hi' & _). discriminate Hi'.
  - eexists. split; [reflexivity|]. split; [exact Hn|]. split.
    + cbn [tobjs tvars A.t_vars]. constructor.
      * cbn [fst snd]. split; [reflexivity|]. rewrite idx_set_name. exact I1.
      * eapply env_rel_ext; [apply ext_set_name|exact Henv].
    + cbn [tobjs tinstrs A.t_emitted]. eapply zview_ext; [apply ext_set_name|exact Hz].
Qed.

Lemma sim_stmts : forall ss sa sc sa', R sa sc -> 0 <= A.t_n sa -> A.t_n sa + stmts_cost ss < 2 ^ 63 ->
  A.tr_stmts ss sa = Ok sa' -> exists sc', t_stmts ss sc = Ok sc' /\ R sa' sc'.
Proof.
  induction ss as [|s ss IH]; intros sa sc sa' HR H0 Hb H; cbn [A.tr_stmts t_stmts] in H |- *.
  - injection H as <-. eauto.
  - change (stmts_cost (s :: ss)) with (expr_cost (sexpr s) + stmts_cost ss) in Hb. pose proof (stmts_cost_nonneg ss) as Cs. pose proof (expr_cost_nonneg (sexpr s)) as Ce.
    destruct (A.tr_stmt sa s) as [s1| | |] eqn:E1; cbn [obind] in H; try discriminate.
    destruct (sim_stmt s sa sc s1 HR H0 ltac:(lia) E1) as (sc1 & T1 & R1).
    destruct (aux_stmt_cost _ _ _ E1) as (N1 & _).
    rewrite T1. cbn [obind]. apply (IH s1 sc1 sa' R1); [lia|lia|exact H].
Qed.

Lemma R_init : R A.t_init tinit.
Proof. split; [reflexivity|]. split; [constructor|reflexivity]. Qed.

(* ---- 6. the hypothesis of C04_roundtrip_partial, discharged ----
   For a script that the index-only translator accepts with fewer than 2^63 - 1 operations: loading its
   printed text (printer, tabwriter, parser, Translate, Compile, Evaluate of branch c07c03) gives exactly
   the program and chain that C04's local translate_eval gives. *)
Theorem aux_load : forall t ops c,
  A.wf_script t = true -> A.translate_eval t = Ok (ops, c) -> Z.of_nat (length ops) + 1 < 2 ^ 63 ->
  exists ir, load_m (print_script t) = Ok (ir, ops, c).
Proof.
  intros t ops c Hwf He Hlen. rewrite wf_script_eq in Hwf.
  unfold load_m. rewrite (roundtrip t Hwf). cbn [obind].
  unfold A.translate_eval, A.translate_compile, A.translate in He.
  destruct (A.tr_stmts t A.t_init) as [sa| | |] eqn:Es; cbn [obind] in He; try discriminate.
  destruct (Naming.compile (A.t_emitted sa)) as [ops'| | |] eqn:Ec; cbn [obind] in He; try discriminate.
  destruct (evaluate ops') as [c'| | |] eqn:Ev; cbn [obind] in He; try discriminate.
  injection He as -> ->.
  destruct (aux_stmts_cost _ _ _ Es) as (Nn & Ln). cbn [A.t_init A.t_n A.t_emitted ir_len fold_right] in Nn, Ln.
  pose proof (compile_len _ _ _ Ec) as Lc. cbn [length] in Lc.
  destruct (sim_stmts t A.t_init tinit sa R_init ltac:(cbn; lia) ltac:(cbn [A.t_init A.t_n]; lia) Es) as (sc & Ts & (_ & _ & Hz)).
  unfold load_tree, translate. rewrite Ts. cbn [obind].
  pose proof (resolve_zview (tobjs sc) (tinstrs sc)) as Hr.
  destruct (map_opt (resolve_instr (tobjs sc)) (tinstrs sc)) as [p|]; [|rewrite Hz in Hr; discriminate Hr].
  rewrite Hz in Hr. injection Hr as Hr. cbn [obind].
  unfold compile. rewrite compile_loop_strip, <- Hr. unfold Naming.compile in Ec.
  rewrite (naming_compile_z _ _ _ Ec). cbn [obind]. rewrite Ev. cbn [obind]. eexists. reflexivity.
Qed.
