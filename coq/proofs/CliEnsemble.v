(* C15 on top of C01: with the modelled ensemble in place of the oracle argument, the command-line theorem
   needs no hypothesis about the algorithms any more -- only that the target's bit length fits a machine
   word (C01's own bound; any target that fits in memory satisfies it). *)
From Coq Require Import String.
From Coq Require Import List NArith ZArith Bool Lia.
From AV Require Import model.Proto model.Chain model.Program model.Bits.
From AV Require model.Calc model.Ensemble model.Search model.SearchEns.
From AV Require proofs.EnsembleProofs proofs.SearchMain proofs.SearchEnsProofs.
From AV Require Import proofs.ProgramProofs model.Cli model.CliEns proofs.CliProofs.
Import ListNotations.
Open Scope Z_scope.

Lemma ens_of_ok orcs n : 1 <= n -> Z.of_N (bitlen n) < 2 ^ 64 ->
  ens_of orcs n <> [] /\ Forall result_ok (ens_of orcs n).
Proof.
  intros Hn Hb.
  destruct (SearchEnsProofs.run_all_ok n orcs Ensemble.ensemble O Hn Hb EnsembleProofs.ensemble_ok) as (rs & Er & Lr & Fr).
  unfold ens_of, SearchEns.ens_model. rewrite Er. split.
  - intros H. apply map_eq_nil in H. subst rs. rewrite (proj1 EnsembleProofs.ensemble_shape) in Lr. discriminate Lr.
  - apply Forall_forall. intros x Hx. apply in_map_iff in Hx as (r & <- & Hr).
    destruct (In_nth_error _ _ Hr) as (j & Hj). unfold result_of.
    destruct (Fr j r Hj) as [(E0 & _ & _ & _ & Hev)|[Rf _]].
    + rewrite E0. cbn [result_ok]. exact (proj1 (SearchMain.evaluate_ok_wf _ _ Hev)).
    + unfold SearchEnsProofs.refused in Rf. rewrite Rf. exact I.
Qed.

(* the size bound of C01 on the target of a search command; nothing for the other commands *)
Definition target_fits (c : cmd) : Prop :=
  match c with
  | Search expr _ _ _ => forall n, Calc.eval expr = Ok n -> Z.of_N (bitlen n) < 2 ^ 64
  | _ => True
  end.

Lemma trivial_ens_ok : ens_ok (fun _ => [Ok []]).
Proof. intros n _. split; [discriminate|]. constructor; [exact wf_nil|constructor]. Qed.

Theorem cli_no_panic_ensemble orcs c : target_fits c -> exists e, cli (ens_of orcs) c = Ok e.
Proof.
  intros Hfit. destruct c as [expr p add dbl|src|b src|typ src].
  - cbn [cli]. apply search_exits_at. intros n En Hn. apply ens_of_ok; [exact Hn|exact (Hfit n En)].
  - exact (cli_no_panic (fun _ => [Ok []]) (Eval src) trivial_ens_ok).
  - exact (cli_no_panic (fun _ => [Ok []]) (Fmt b src) trivial_ens_ok).
  - exact (cli_no_panic (fun _ => [Ok []]) (Gen typ src) trivial_ens_ok).
Qed.
