(* C03, part 2: the two-stage code path (Translate resolves every name and numbers the elements;
   Compile checks bounds and output indexes later; Evaluate computes the values) agrees with the
   in-order semantics `denote` on accept/reject, on the chain and on the program.
   Method (design appendix L): a simulation between the translator state and the denotational
   state; once `denote` has met an error, every extension of the instruction list emitted so far is
   rejected by Compile ("poisoned"), whatever Translate goes on to do. *)
From Coq Require Import String.
From Coq Require Import List NArith ZArith Lia Bool Arith.
From AV Require Import model.Proto model.Chain model.Ast model.Ir model.Printer model.Peg model.Translate.
From AV Require model.Program.
From AV Require Import proofs.TranslateBasics.
Import ListNotations.
Open Scope Z_scope.

(* ---------- name tables ---------- *)
Definition env_rel (objs : list operand) (vars : list (list N * nat)) (env : list (list N * Z)) : Prop :=
  Forall2 (fun a b => fst a = fst b /\ idx objs (snd a) = Some (snd b)) vars env.

Lemma env_rel_ext objs objs' vars env : ext objs objs' -> env_rel objs vars env -> env_rel objs' vars env.
Proof. intros He H. induction H as [|a b va ve [H1 H2] _ IH]; constructor; auto. Qed.

Lemma env_rel_lookup objs vars env name : env_rel objs vars env ->
  match lookup name vars with
  | Some id => exists i, lookup name env = Some i /\ idx objs id = Some i
  | None => lookup name env = None
  end.
Proof.
  intros H. induction H as [|[n id] [n' i] va ve [H1 H2] _ IH]; cbn [lookup]; [reflexivity|].
  cbn [fst snd] in *. subst n'. destruct (str_eqb n name); [eauto|exact IH].
Qed.

(* ---------- validity of the translator state ---------- *)
Definition valid (st : tstate) : Prop :=
  Forall (fun p => (snd p < length (tobjs st))%nat) (tvars st) /\
  exists zs, zview (tobjs st) (tinstrs st) = Some zs.

Lemma valid_lookup st name id : valid st -> lookup name (tvars st) = Some id -> (id < length (tobjs st))%nat.
Proof.
  intros [H _]. induction H as [|[n i] l Hi _ IH]; cbn [lookup]; [discriminate|].
  destruct (str_eqb n name); [intros E; injection E as <-; exact Hi|exact IH].
Qed.

Lemma ext_length objs objs' id : ext objs objs' -> (id < length objs)%nat -> (id < length objs')%nat.
Proof. intros He H. destruct (idx_some objs id H) as (i & Hi). eapply idx_lt. apply He. exact Hi. Qed.

Definition grows (st st' : tstate) : Prop :=
  tvars st' = tvars st /\ ext (tobjs st) (tobjs st') /\ exists extra, tinstrs st' = tinstrs st ++ extra.

Lemma grows_refl st : grows st st.
Proof. split; [reflexivity|]. split; [apply ext_refl|]. exists []. now rewrite app_nil_r. Qed.
Lemma grows_trans a b c : grows a b -> grows b c -> grows a c.
Proof.
  intros (V1 & E1 & x1 & I1) (V2 & E2 & x2 & I2). split; [congruence|]. split; [eapply ext_trans; eauto|].
  exists (x1 ++ x2). now rewrite I2, I1, app_assoc.
Qed.

Lemma zop_of_valid objs o : (forall id, In id (match o with TAdd x y => [x; y] | TDouble x => [x] | TShift x _ => [x] end) ->
  (id < length objs)%nat) -> exists z, zop_of objs o = Some z.
Proof.
  intros H. destruct o as [x y|x|x s]; cbn [zop_of].
  - destruct (idx_some objs x) as (a & ->); [apply H; simpl; auto|].
    destruct (idx_some objs y) as (b & ->); [apply H; simpl; auto|]. eauto.
  - destruct (idx_some objs x) as (a & ->); [apply H; simpl; auto|]. simpl. eauto.
  - destruct (idx_some objs x) as (a & ->); [apply H; simpl; auto|]. simpl. eauto.
Qed.

(* emitting an instruction whose inputs are live objects keeps the state valid *)
Lemma emit_view st zs o i n' z : zview (tobjs st) (tinstrs st) = Some zs -> zop_of (tobjs st) o = Some z ->
  zview (tobjs (snd (emit st i n' (fun out => mkT out o)))) (tinstrs (snd (emit st i n' (fun out => mkT out o))))
  = Some (zs ++ [(i, z)]).
Proof.
  intros Hz Ho. unfold emit. cbn [snd tobjs tinstrs]. unfold zview. rewrite map_opt_app.
  pose proof (ext_app (tobjs st) (index_operand i)) as He.
  fold (zview (tobjs st ++ [index_operand i]) (tinstrs st)). rewrite (zview_ext _ _ _ _ He Hz).
  cbn [map_opt]. unfold zinstr_of. cbn [tout topn]. rewrite idx_new. cbn [index_operand oindex].
  now rewrite (zop_of_ext _ _ _ _ He Ho).
Qed.

Lemma emit_grows st i n' o : grows st (snd (emit st i n' (fun out => mkT out o))).
Proof. unfold emit. cbn [snd]. split; [reflexivity|]. split; [apply ext_app|]. eexists. reflexivity. Qed.

Lemma valid_emit st i n' o z : valid st -> zop_of (tobjs st) o = Some z ->
  valid (snd (emit st i n' (fun out => mkT out o))) /\
  (fst (emit st i n' (fun out => mkT out o)) < length (tobjs (snd (emit st i n' (fun out => mkT out o)))))%nat.
Proof.
  intros [Hv (zs & Hz)] Ho. split; [split|].
  - unfold emit. cbn [snd tobjs tvars]. eapply Forall_impl; [|exact Hv]. intros p Hp. cbv beta in Hp |- *. rewrite app_length. cbn [length]. lia.
  - eexists. eapply emit_view; eauto.
  - unfold emit. cbn [fst snd tobjs]. rewrite app_length. simpl. lia.
Qed.

Lemma obj_index_ok st id : (id < length (tobjs st))%nat -> exists i, obj_index st id = Ok i /\ idx (tobjs st) id = Some i.
Proof.
  intros H. unfold obj_index, idx. destruct (nth_error (tobjs st) id) as [o|] eqn:E.
  - exists (oindex o). auto.
  - apply nth_error_None in E. lia.
Qed.

(* shape of t_expr: never panics on a valid state; only grows it *)
Lemma t_expr_shape e : forall st, valid st ->
  match t_expr e st with
  | Ok (id, st') => valid st' /\ (id < length (tobjs st'))%nat /\ grows st st'
  | Err _ => True
  | _ => False
  end.
Proof.
  induction e as [i|s|x IHx y IHy|x IHx s|x IHx]; intros st Hv; cbn [t_expr].
  - unfold new_obj. destruct Hv as [Hv (zs & Hz)]. split; [split|split].
    + cbn [tobjs tvars]. eapply Forall_impl; [|exact Hv]. intros p Hp. cbv beta in Hp |- *. rewrite app_length. cbn [length]. lia.
    + exists zs. cbn [tobjs tinstrs]. eapply zview_ext; [apply ext_app|exact Hz].
    + cbn [tobjs]. rewrite app_length. simpl. lia.
    + split; [reflexivity|]. split; [apply ext_app|]. exists []. cbn [tinstrs]. now rewrite app_nil_r.
  - destruct (lookup s (tvars st)) as [id|] eqn:El; [|exact I].
    split; [exact Hv|]. split; [eapply valid_lookup; eauto|apply grows_refl].
  - specialize (IHx st Hv). destruct (t_expr x st) as [[ix st1]|c|c|]; cbn [obind]; auto.
    destruct IHx as (Hv1 & Hix & G1). specialize (IHy st1 Hv1).
    destruct (t_expr y st1) as [[iy st2]|c|c|]; cbn [obind]; auto.
    destruct IHy as (Hv2 & Hiy & G2).
    assert (Hix2 : (ix < length (tobjs st2))%nat) by (eapply ext_length; [apply G2|exact Hix]).
    destruct (obj_index_ok st2 ix Hix2) as (vx & -> & Evx). destruct (obj_index_ok st2 iy Hiy) as (vy & -> & Evy).
    cbn [obind].
    assert (Hz : forall a b, (a = ix \/ a = iy) -> (b = ix \/ b = iy) -> exists z, zop_of (tobjs st2) (TAdd a b) = Some z).
    { intros a b Ha Hb. apply zop_of_valid. intros id [<-|[<-|[]]]; [destruct Ha as [-> | ->]|destruct Hb as [-> | ->]]; assumption. }
    destruct (vx >? vy).
    + destruct (Hz iy ix) as (z & Hzz); auto.
      destruct (valid_emit st2 (tn st2) (wrap64 (tn st2 + 1)) (TAdd iy ix) z Hv2 Hzz) as [Hv3 Ho].
      destruct (emit st2 (tn st2) (wrap64 (tn st2 + 1)) (fun out => mkT out (TAdd iy ix))) as [out st3] eqn:Ee.
      cbn [fst snd] in *. split; [exact Hv3|]. split; [exact Ho|].
      eapply grows_trans; [exact G1|]. eapply grows_trans; [exact G2|].
      replace st3 with (snd (emit st2 (tn st2) (wrap64 (tn st2 + 1)) (fun out => mkT out (TAdd iy ix)))) by now rewrite Ee.
      apply emit_grows.
    + destruct (Hz ix iy) as (z & Hzz); auto.
      destruct (valid_emit st2 (tn st2) (wrap64 (tn st2 + 1)) (TAdd ix iy) z Hv2 Hzz) as [Hv3 Ho].
      destruct (emit st2 (tn st2) (wrap64 (tn st2 + 1)) (fun out => mkT out (TAdd ix iy))) as [out st3] eqn:Ee.
      cbn [fst snd] in *. split; [exact Hv3|]. split; [exact Ho|].
      eapply grows_trans; [exact G1|]. eapply grows_trans; [exact G2|].
      replace st3 with (snd (emit st2 (tn st2) (wrap64 (tn st2 + 1)) (fun out => mkT out (TAdd ix iy)))) by now rewrite Ee.
      apply emit_grows.
  - specialize (IHx st Hv). destruct (t_expr x st) as [[ix st1]|c|c|]; cbn [obind]; auto.
    destruct IHx as (Hv1 & Hix & G1). destruct (s =? 0)%N; [auto|].
    destruct (zop_of_valid (tobjs st1) (TShift ix s)) as (z & Hzz); [intros id [<-|[]]; exact Hix|].
    set (n' := wrap64 (tn st1 + wrap64 (Z.of_N s))).
    destruct (valid_emit st1 (wrap64 (n' - 1)) n' (TShift ix s) z Hv1 Hzz) as [Hv3 Ho].
    destruct (emit st1 (wrap64 (n' - 1)) n' (fun out => mkT out (TShift ix s))) as [out st3] eqn:Ee.
    cbn [fst snd] in *. split; [exact Hv3|]. split; [exact Ho|].
    eapply grows_trans; [exact G1|].
    replace st3 with (snd (emit st1 (wrap64 (n' - 1)) n' (fun out => mkT out (TShift ix s)))) by now rewrite Ee.
    apply emit_grows.
  - specialize (IHx st Hv). destruct (t_expr x st) as [[ix st1]|c|c|]; cbn [obind]; auto.
    destruct IHx as (Hv1 & Hix & G1).
    destruct (zop_of_valid (tobjs st1) (TDouble ix)) as (z & Hzz); [intros id [<-|[]]; exact Hix|].
    destruct (valid_emit st1 (tn st1) (wrap64 (tn st1 + 1)) (TDouble ix) z Hv1 Hzz) as [Hv3 Ho].
    destruct (emit st1 (tn st1) (wrap64 (tn st1 + 1)) (fun out => mkT out (TDouble ix))) as [out st3] eqn:Ee.
    cbn [fst snd] in *. split; [exact Hv3|]. split; [exact Ho|].
    eapply grows_trans; [exact G1|].
    replace st3 with (snd (emit st1 (tn st1) (wrap64 (tn st1 + 1)) (fun out => mkT out (TDouble ix)))) by now rewrite Ee.
    apply emit_grows.
Qed.

(* ---------- the simulation relation and its negation ---------- *)
Definition Rel (st : tstate) (ds : dstate) : Prop :=
  sane ds /\ tn st = Z.of_nat (length (dvals ds)) /\ env_rel (tobjs st) (tvars st) (denv ds) /\
  exists zs, zview (tobjs st) (tinstrs st) = Some zs /\ compile_z [] zs = Ok (dops ds).

Definition Poison (st : tstate) : Prop :=
  forall objs' extra zs, ext (tobjs st) objs' -> zview objs' (tinstrs st ++ extra) = Some zs ->
  exists cls, compile_z [] zs = Err cls.

Lemma poison_grows st st' : Poison st -> grows st st' -> Poison st'.
Proof.
  intros HP (_ & He & x & Hi) objs' extra zs He' Hz. rewrite Hi, <- app_assoc in Hz.
  eapply HP; [eapply ext_trans; eauto|exact Hz].
Qed.

Lemma poison_expr e st : Poison st -> valid st ->
  match t_expr e st with
  | Ok (id, st') => Poison st' /\ valid st' /\ (id < length (tobjs st'))%nat /\ grows st st'
  | Err _ => True
  | _ => False
  end.
Proof.
  intros HP Hv. pose proof (t_expr_shape e st Hv) as H. destruct (t_expr e st) as [[id st']|c|c|]; auto.
  destruct H as (Hv' & Hid & G). split; [eapply poison_grows; eauto|]. split; [exact Hv'|]. split; [exact Hid|exact G].
Qed.

Lemma zview_split objs is extra zs : zview objs (is ++ extra) = Some zs ->
  exists z1 z2, zview objs is = Some z1 /\ zview objs extra = Some z2 /\ zs = z1 ++ z2.
Proof.
  unfold zview. rewrite map_opt_app. destruct (map_opt (zinstr_of objs) is); [|discriminate].
  destruct (map_opt (zinstr_of objs) extra); [|discriminate]. intros H. injection H as <-. eauto.
Qed.

Lemma wrap64_id z : - 2 ^ 63 <= z < 2 ^ 63 -> wrap64 z = z.
Proof. intros H. unfold wrap64. rewrite Z.mod_small; lia. Qed.

(* one emitted instruction: accepted by Compile -> the relation extends; rejected -> poisoned *)
Lemma emit_rel st ds o z i n' ds' : Rel st ds -> zop_of (tobjs st) o = Some z ->
  zstep (dops ds) z = (dops ds', Ok i) -> sane ds' -> denv ds' = denv ds -> n' = Z.of_nat (length (dvals ds')) ->
  Rel (snd (emit st i n' (fun out => mkT out o))) ds'.
Proof.
  intros (Hs & Hn & Henv & zs & Hz & Hc) Ho Hstep Hs' Hd' Hn'. split; [exact Hs'|]. split; [exact Hn'|]. split.
  - rewrite Hd'. eapply env_rel_ext; [|exact Henv]. apply ext_app.
  - exists (zs ++ [(i, z)]). split; [now apply emit_view|].
    rewrite compile_z_app, Hc. cbn [obind compile_z]. rewrite Hstep. cbn [obind]. now rewrite Z.eqb_refl.
Qed.

Lemma emit_poison st ds o z i n' : Rel st ds -> zop_of (tobjs st) o = Some z ->
  (exists p cls, zstep (dops ds) z = (p, Err cls)) ->
  Poison (snd (emit st i n' (fun out => mkT out o))).
Proof.
  intros (Hs & Hn & Henv & zs & Hz & Hc) Ho (p & cls & Hstep) objs' extra zs' He Hv.
  destruct (zview_split _ _ _ _ Hv) as (z1 & z2 & H1 & _ & ->).
  pose proof (emit_view st zs o i n' z Hz Ho) as Hview.
  rewrite (zview_ext _ _ _ _ He Hview) in H1. injection H1 as <-.
  rewrite !compile_z_app, Hc. cbn [obind compile_z]. rewrite Hstep. cbn [obind]. eauto.
Qed.

Lemma rel_valid st ds : Rel st ds -> valid st.
Proof.
  intros (_ & _ & Henv & zs & Hz & _). split; [|eauto].
  induction Henv as [|a b va ve [_ H] _ IH]; constructor; [eapply idx_lt; eauto|exact IH].
Qed.

Lemma expr_cost_nonneg e : 0 <= expr_cost e.
Proof. induction e; cbn [expr_cost]; lia. Qed.

Definition sim_result (e : expr) (st : tstate) (ds : dstate) : Prop :=
  match den_expr e ds with
  | Ok (i, ds') => exists id st', t_expr e st = Ok (id, st') /\ Rel st' ds' /\ idx (tobjs st') id = Some i /\
                     denv ds' = denv ds /\ Z.of_nat (length (dvals ds')) = Z.of_nat (length (dvals ds)) + expr_cost e
  | Err _ => (exists cls, t_expr e st = Err cls) \/ (exists id st', t_expr e st = Ok (id, st') /\ Poison st')
  | _ => False
  end.

Lemma min_max_swap ix iy : (if ix >? iy then (iy, ix) else (ix, iy)) = (Z.min ix iy, Z.max ix iy).
Proof. destruct (ix >? iy) eqn:E; [apply Z.gtb_lt in E|rewrite Z.gtb_ltb in E; apply Z.ltb_ge in E]; f_equal; lia. Qed.

Lemma exists_min_max ds ix iy : exists_at ds ix && exists_at ds iy = exists_at ds (Z.min ix iy) && exists_at ds (Z.max ix iy).
Proof.
  destruct (Z.le_ge_cases ix iy) as [H|H].
  - now rewrite Z.min_l, Z.max_r by lia.
  - rewrite Z.min_r, Z.max_l by lia. apply andb_comm.
Qed.
Lemma val_min_max ds ix iy : val_at ds ix + val_at ds iy = val_at ds (Z.min ix iy) + val_at ds (Z.max ix iy).
Proof.
  destruct (Z.le_ge_cases ix iy) as [H|H].
  - now rewrite Z.min_l, Z.max_r by lia.
  - rewrite Z.min_r, Z.max_l by lia. lia.
Qed.

(* continuation of an addition after its left operand, in a poisoned state *)
Definition add_cont (y : expr) (ix : nat) (st1 : tstate) : outcome (nat * tstate) :=
  obind (t_expr y st1) (fun r2 => let '(iy, st2) := r2 in
  obind (obj_index st2 ix) (fun vx =>
  obind (obj_index st2 iy) (fun vy =>
    let '(a, b) := if vx >? vy then (iy, ix) else (ix, iy) in
    Ok (emit st2 (tn st2) (wrap64 (tn st2 + 1)) (fun out => mkT out (TAdd a b)))))).

Lemma add_cont_poison y ix st1 : Poison st1 -> valid st1 -> (ix < length (tobjs st1))%nat ->
  (exists cls, add_cont y ix st1 = Err cls) \/ (exists id st', add_cont y ix st1 = Ok (id, st') /\ Poison st').
Proof.
  intros HP Hv Hix. unfold add_cont. pose proof (poison_expr y st1 HP Hv) as H.
  destruct (t_expr y st1) as [[iy st2]|c|c|]; cbn [obind]; [|left; eauto|destruct H|destruct H].
  destruct H as (HP2 & Hv2 & Hiy & G2).
  assert (Hix2 : (ix < length (tobjs st2))%nat) by (eapply ext_length; [apply G2|exact Hix]).
  destruct (obj_index_ok st2 ix Hix2) as (vx & -> & _). destruct (obj_index_ok st2 iy Hiy) as (vy & -> & _).
  cbn [obind]. right. destruct (vx >? vy); eexists _, _; (split; [reflexivity|]);
    (eapply poison_grows; [exact HP2|apply emit_grows]).
Qed.

Lemma expr_sim e : forall st ds, Rel st ds -> Z.of_nat (length (dvals ds)) + expr_cost e < 2 ^ 63 -> sim_result e st ds.
Proof.
  induction e as [i|s|x IHx y IHy|x IHx s|x IHx]; intros st ds HR Hc; unfold sim_result; cbn [den_expr t_expr].
  - (* operand *)
    unfold new_obj. eexists _, _. split; [reflexivity|]. cbn [tobjs]. split; [|split; [apply idx_new|split; [reflexivity|cbn [expr_cost]; lia]]].
    destruct HR as (Hs & Hn & Henv & zs & Hz & Hcz). split; [exact Hs|]. split; [exact Hn|]. split.
    + cbn [tobjs tvars]. eapply env_rel_ext; [apply ext_app|exact Henv].
    + exists zs. cbn [tobjs tinstrs]. split; [eapply zview_ext; [apply ext_app|exact Hz]|exact Hcz].
  - (* identifier *)
    pose proof HR as (_ & _ & Henv & _). pose proof (env_rel_lookup _ _ _ s Henv) as Hl.
    destruct (lookup s (tvars st)) as [id|].
    + destruct Hl as (i & -> & Hi). eexists _, _. split; [reflexivity|]. split; [exact HR|].
      split; [exact Hi|]. split; [reflexivity|cbn [expr_cost]; lia].
    + rewrite Hl. left. eauto.
  - (* addition *)
    cbn [expr_cost] in Hc. pose proof (expr_cost_nonneg x) as Hx0. pose proof (expr_cost_nonneg y) as Hy0.
    pose proof (IHx st ds HR ltac:(lia)) as Hx. unfold sim_result in Hx.
    pose proof (rel_valid _ _ HR) as Hv. pose proof (t_expr_shape x st Hv) as Hsx.
    fold (add_cont y).
    destruct (den_expr x ds) as [[ix ds1]|c|c|]; cbn [obind]; [| |destruct Hx|destruct Hx].
    + destruct Hx as (idx_ & st1 & Ex & HR1 & Hix & Hd1 & Hl1). rewrite Ex in *. cbn [obind].
      pose proof (IHy st1 ds1 HR1 ltac:(lia)) as Hy. unfold sim_result in Hy.
      pose proof (rel_valid _ _ HR1) as Hv1.
      pose proof (t_expr_shape y st1 Hv1) as Hsh.
      destruct (den_expr y ds1) as [[iy ds2]|c|c|]; cbn [obind]; [| |destruct Hy|destruct Hy].
      * destruct Hy as (idy & st2 & Ey & HR2 & Hiy & Hd2 & Hl2). rewrite Ey in *. cbn [obind].
        destruct Hsh as (Hv2 & Hidy & G2).
        assert (Hix2 : idx (tobjs st2) idx_ = Some ix) by (apply G2; exact Hix).
        unfold obj_index. unfold idx in Hix2, Hiy.
        destruct (nth_error (tobjs st2) idx_) as [ox|] eqn:Eox; [|discriminate]. injection Hix2 as Hix2.
        destruct (nth_error (tobjs st2) idy) as [oy|] eqn:Eoy; [|discriminate]. injection Hiy as Hiy.
        cbn [obind]. rewrite Hix2, Hiy.
        pose proof HR2 as (Hs2 & Hn2 & _).
        assert (Hzop : forall a b, (a, b) = (if ix >? iy then (idy, idx_) else (idx_, idy)) ->
                       zop_of (tobjs st2) (TAdd a b) = Some (ZAdd (Z.min ix iy) (Z.max ix iy))).
        { intros a b Hab. pose proof (min_max_swap ix iy) as Hmm. destruct (ix >? iy); injection Hab as -> ->;
          cbn [zop_of]; unfold idx; rewrite Eox, Eoy; cbn [option_map]; rewrite Hix2, Hiy; injection Hmm as <- <-; reflexivity. }
        destruct (if ix >? iy then (idy, idx_) else (idx_, idy)) as [a b]. specialize (Hzop a b eq_refl).
        rewrite exists_min_max, val_min_max.
        destruct (exists_at ds2 (Z.min ix iy) && exists_at ds2 (Z.max ix iy)) eqn:Eex.
        -- apply andb_true_iff in Eex as [Ea Eb].
           set (ds3 := append ds2 (val_at ds2 (Z.min ix iy) + val_at ds2 (Z.max ix iy)) (Z.to_nat (Z.min ix iy), Z.to_nat (Z.max ix iy))).
           assert (Hlen3 : Z.of_nat (length (dvals ds3)) = Z.of_nat (length (dvals ds2)) + 1).
           { unfold ds3. cbn [append dvals]. rewrite app_length. simpl. lia. }
           assert (HR3 : Rel (snd (emit st2 (tn st2) (wrap64 (tn st2 + 1)) (fun out => mkT out (TAdd a b)))) ds3).
           { eapply emit_rel; eauto.
             - cbn [zstep]. rewrite (add_ok ds2 _ _ Hs2 Ea Eb). rewrite Hn2. reflexivity.
             - unfold ds3. now apply sane_append.
             - rewrite wrap64_id; lia. }
           eexists _, _. split; [reflexivity|]. split; [exact HR3|].
           unfold emit. cbn [fst snd tobjs]. split; [rewrite idx_new; cbn [index_operand oindex]; f_equal; unfold newest; lia|].
           split; [unfold ds3; cbn [append denv]; congruence|cbn [expr_cost]; lia].
        -- right. eexists _, _. split; [reflexivity|].
           eapply emit_poison; eauto. cbn [zstep]. apply add_bad; assumption.
      * (* y fails *)
        destruct Hy as [(cls & Ey)|(idy & st2 & Ey & HP2)]; rewrite Ey in *; cbn [obind]; [left; eauto|].
        destruct Hsh as (Hv2 & Hidy & G2).
        assert (Hix2 : (idx_ < length (tobjs st2))%nat) by (eapply idx_lt; apply G2; exact Hix).
        destruct (obj_index_ok st2 idx_ Hix2) as (vx & -> & _). destruct (obj_index_ok st2 idy Hidy) as (vy & -> & _).
        cbn [obind]. right. destruct (vx >? vy); eexists _, _; (split; [reflexivity|]);
          (eapply poison_grows; [exact HP2|apply emit_grows]).
    + (* x fails *)
      destruct Hx as [(cls & Ex)|(idx_ & st1 & Ex & HP1)]; rewrite Ex in *; cbn [obind]; [left; eauto|].
      destruct Hsx as (Hv1 & Hix & _). apply add_cont_poison; assumption.
  - (* shift *)
    cbn [expr_cost] in Hc. pose proof (expr_cost_nonneg x) as Hx0.
    pose proof (IHx st ds HR ltac:(lia)) as Hx. unfold sim_result in Hx.
    pose proof (rel_valid _ _ HR) as Hv. pose proof (t_expr_shape x st Hv) as Hsx.
    destruct (den_expr x ds) as [[ix ds1]|c|c|]; cbn [obind]; [| |destruct Hx|destruct Hx].
    + destruct Hx as (idx_ & st1 & Ex & HR1 & Hix & Hd1 & Hl1). rewrite Ex in *. cbn [obind].
      destruct (s =? 0)%N eqn:Es0.
      * apply N.eqb_eq in Es0. subst s. eexists _, _. split; [reflexivity|]. split; [exact HR1|]. split; [exact Hix|].
        split; [exact Hd1|cbn [expr_cost]; lia].
      * apply N.eqb_neq in Es0. pose proof HR1 as (Hs1 & Hn1 & _).
        assert (Hzop : zop_of (tobjs st1) (TShift idx_ s) = Some (ZShift ix s)) by (cbn [zop_of]; now rewrite Hix).
        assert (Hspos : (0 < N.to_nat s)%nat) by lia.
        destruct (exists_at ds1 ix) eqn:Eex.
        -- destruct (shift_loop_ok (N.to_nat s) ds1 ix Hs1 Eex) as (Esh & Hs2 & Hl2 & Hd2).
           set (ds2 := doublings (N.to_nat s) ds1 ix) in *.
           assert (Hlen : Z.of_nat (length (dvals ds2)) = Z.of_nat (length (dvals ds1)) + Z.of_N s) by lia.
           assert (Hn' : wrap64 (tn st1 + wrap64 (Z.of_N s)) = Z.of_nat (length (dvals ds2))).
           { rewrite (wrap64_id (Z.of_N s)) by lia. rewrite wrap64_id; lia. }
           rewrite Hn'.
           assert (Hout : wrap64 (Z.of_nat (length (dvals ds2)) - 1) = newest ds2).
           { unfold newest. apply wrap64_id. lia. }
           rewrite Hout.
           eexists _, _. split; [reflexivity|]. split.
           { eapply emit_rel; eauto. cbn [zstep]. unfold Program.shift. rewrite Esh.
             destruct (N.to_nat s =? 0)%nat eqn:E0; [apply Nat.eqb_eq in E0; lia|reflexivity]. }
           unfold emit. cbn [fst snd tobjs]. split; [rewrite idx_new; reflexivity|].
           split; [congruence|cbn [expr_cost]; lia].
        -- right. eexists _, _. split; [reflexivity|]. eapply emit_poison; eauto.
           cbn [zstep]. unfold Program.shift. destruct (N.to_nat s) as [|k] eqn:Ek; [lia|].
           apply shift_loop_bad; assumption.
    + destruct Hx as [(cls & Ex)|(idx_ & st1 & Ex & HP1)]; rewrite Ex in *; cbn [obind]; [left; eauto|].
      destruct Hsx as (Hv1 & Hix & _). right. destruct (s =? 0)%N; [eauto|].
      eexists _, _. split; [reflexivity|]. eapply poison_grows; [exact HP1|apply emit_grows].
  - (* double *)
    cbn [expr_cost] in Hc. pose proof (expr_cost_nonneg x) as Hx0.
    pose proof (IHx st ds HR ltac:(lia)) as Hx. unfold sim_result in Hx.
    pose proof (rel_valid _ _ HR) as Hv. pose proof (t_expr_shape x st Hv) as Hsx.
    destruct (den_expr x ds) as [[ix ds1]|c|c|]; cbn [obind]; [| |destruct Hx|destruct Hx].
    + destruct Hx as (idx_ & st1 & Ex & HR1 & Hix & Hd1 & Hl1). rewrite Ex in *. cbn [obind].
      pose proof HR1 as (Hs1 & Hn1 & _).
      assert (Hzop : zop_of (tobjs st1) (TDouble idx_) = Some (ZDouble ix)) by (cbn [zop_of]; now rewrite Hix).
      destruct (exists_at ds1 ix) eqn:Eex.
      * set (ds2 := append ds1 (2 * val_at ds1 ix) (Z.to_nat ix, Z.to_nat ix)).
        assert (Hlen2 : Z.of_nat (length (dvals ds2)) = Z.of_nat (length (dvals ds1)) + 1).
        { unfold ds2. cbn [append dvals]. rewrite app_length. simpl. lia. }
        eexists _, _. split; [reflexivity|]. split.
        { eapply (emit_rel st1 ds1 _ _ _ _ ds2); eauto.
          - cbn [zstep]. unfold Program.double. rewrite (add_ok ds1 _ _ Hs1 Eex Eex). rewrite Hn1. reflexivity.
          - unfold ds2. replace (2 * val_at ds1 ix) with (val_at ds1 ix + val_at ds1 ix) by lia. now apply sane_append.
          - rewrite wrap64_id; lia. }
        unfold emit. cbn [fst snd tobjs]. split; [rewrite idx_new; cbn [index_operand oindex]; f_equal; unfold newest; lia|].
        split; [unfold ds2; cbn [append denv]; congruence|cbn [expr_cost]; lia].
      * right. eexists _, _. split; [reflexivity|]. eapply emit_poison; eauto.
        cbn [zstep]. unfold Program.double. apply add_bad; [assumption|]. now rewrite Eex.
    + destruct Hx as [(cls & Ex)|(idx_ & st1 & Ex & HP1)]; rewrite Ex in *; cbn [obind]; [left; eauto|].
      destruct Hsx as (Hv1 & Hix & _). right.
      eexists _, _. split; [reflexivity|]. eapply poison_grows; [exact HP1|apply emit_grows].
Qed.

(* ---------- statements ---------- *)
Lemma define_rel st ds name id i : Rel st ds -> idx (tobjs st) id = Some i ->
  match lookup name (denv ds) with
  | Some _ => exists cls, define st name id = Err cls
  | None => exists st', define st name id = Ok st' /\ Rel st' (mkD (dvals ds) (dops ds) ((name, i) :: denv ds))
  end.
Proof.
  intros (Hs & Hn & Henv & zs & Hz & Hc) Hi. unfold define.
  pose proof (env_rel_lookup _ _ _ name Henv) as Hl.
  destruct (lookup name (tvars st)) as [id'|].
  - destruct Hl as (i' & -> & _). eauto.
  - rewrite Hl. eexists. split; [reflexivity|].
    pose proof (ext_set_name (tobjs st) id name) as He.
    split; [exact Hs|]. split; [exact Hn|]. split.
    + cbn [tobjs tvars denv]. constructor.
      * cbn [fst snd]. split; [reflexivity|]. rewrite idx_set_name. exact Hi.
      * eapply env_rel_ext; eauto.
    + exists zs. cbn [tobjs tinstrs dops]. split; [eapply zview_ext; eauto|exact Hc].
Qed.

Lemma define_poison st name id : Poison st -> valid st -> (id < length (tobjs st))%nat ->
  match define st name id with
  | Ok st' => Poison st' /\ valid st'
  | Err _ => True
  | _ => False
  end.
Proof.
  intros HP [Hv (zs & Hz)] Hid. unfold define. destruct (lookup name (tvars st)); [exact I|].
  pose proof (ext_set_name (tobjs st) id name) as He. split.
  - intros objs' extra zs' He' Hz'. cbn [tobjs tinstrs] in *. eapply HP; [eapply ext_trans; eauto|exact Hz'].
  - split.
    + cbn [tobjs tvars]. rewrite set_name_length. constructor; [exact Hid|exact Hv].
    + exists zs. cbn [tobjs tinstrs]. eapply zview_ext; eauto.
Qed.

Definition stmts_cost (ss : script) : Z := fold_right (fun s a => expr_cost (sexpr s) + a) 0 ss.
Lemma stmts_cost_nonneg ss : 0 <= stmts_cost ss.
Proof. induction ss as [|s ss IH]; cbn [stmts_cost fold_right]; [lia|]. pose proof (expr_cost_nonneg (sexpr s)). unfold stmts_cost in IH. lia. Qed.
Lemma script_cost_eq c : script_cost c = 1 + stmts_cost c.
Proof. unfold script_cost, stmts_cost. induction c as [|s c IH]; cbn [fold_right]; lia. Qed.

Lemma stmt_sim st ds s : Rel st ds -> Z.of_nat (length (dvals ds)) + expr_cost (sexpr s) < 2 ^ 63 ->
  match den_stmt ds s with
  | Ok ds' => exists st', t_stmt st s = Ok st' /\ Rel st' ds' /\
                Z.of_nat (length (dvals ds')) = Z.of_nat (length (dvals ds)) + expr_cost (sexpr s)
  | Err _ => (exists cls, t_stmt st s = Err cls) \/ (exists st', t_stmt st s = Ok st' /\ Poison st' /\ valid st')
  | _ => False
  end.
Proof.
  intros HR Hc. unfold den_stmt, t_stmt. pose proof (expr_sim (sexpr s) st ds HR Hc) as H. unfold sim_result in H.
  pose proof (t_expr_shape (sexpr s) st (rel_valid _ _ HR)) as Hsh.
  destruct (den_expr (sexpr s) ds) as [[i ds1]|c|c|]; cbn [obind]; [| |destruct H|destruct H].
  - destruct H as (id & st1 & E & HR1 & Hi & Hd & Hl). rewrite E in *. cbn [obind].
    pose proof (define_rel st1 ds1 (sname s) id i HR1 Hi) as Hdef.
    destruct (lookup (sname s) (denv ds1)).
    + left. exact Hdef.
    + destruct Hdef as (st' & -> & HR'). exists st'. split; [reflexivity|]. split; [exact HR'|exact Hl].
  - destruct H as [(cls & E)|(id & st1 & E & HP)]; rewrite E in *; cbn [obind]; [left; eauto|].
    destruct Hsh as (Hv1 & Hid & _). pose proof (define_poison st1 (sname s) id HP Hv1 Hid) as Hdef.
    destruct (define st1 (sname s) id) as [st'|c0|c0|]; [right; eauto|left; eauto|destruct Hdef|destruct Hdef].
Qed.

Lemma poison_stmts ss : forall st, Poison st -> valid st ->
  match t_stmts ss st with
  | Ok st' => Poison st' /\ valid st'
  | Err _ => True
  | _ => False
  end.
Proof.
  induction ss as [|s ss IH]; intros st HP Hv; cbn [t_stmts]; [auto|].
  unfold t_stmt. pose proof (poison_expr (sexpr s) st HP Hv) as H.
  destruct (t_expr (sexpr s) st) as [[id st1]|c|c|]; cbn [obind]; auto.
  destruct H as (HP1 & Hv1 & Hid & _). pose proof (define_poison st1 (sname s) id HP1 Hv1 Hid) as Hdef.
  destruct (define st1 (sname s) id) as [st'|c0|c0|]; cbn [obind]; auto.
  destruct Hdef as [HP' Hv']. now apply IH.
Qed.

Lemma stmts_sim ss : forall st ds, Rel st ds -> Z.of_nat (length (dvals ds)) + stmts_cost ss < 2 ^ 63 ->
  match den_stmts ss ds with
  | Ok ds' => exists st', t_stmts ss st = Ok st' /\ Rel st' ds'
  | Err _ => (exists cls, t_stmts ss st = Err cls) \/ (exists st', t_stmts ss st = Ok st' /\ Poison st' /\ valid st')
  | _ => False
  end.
Proof.
  induction ss as [|s ss IH]; intros st ds HR Hc; cbn [den_stmts t_stmts]; [eauto|].
  cbn [stmts_cost fold_right] in Hc. fold (stmts_cost ss) in Hc.
  pose proof (stmts_cost_nonneg ss) as H0. pose proof (expr_cost_nonneg (sexpr s)) as H1.
  pose proof (stmt_sim st ds s HR ltac:(lia)) as H.
  destruct (den_stmt ds s) as [ds1|c|c|]; cbn [obind]; [| |destruct H|destruct H].
  - destruct H as (st1 & -> & HR1 & Hl). cbn [obind]. apply IH; [exact HR1|lia].
  - destruct H as [(cls & ->)|(st1 & -> & HP & Hv)]; cbn [obind]; [left; eauto|].
    pose proof (poison_stmts ss st1 HP Hv) as Hp.
    destruct (t_stmts ss st1) as [st'|c0|c0|]; [right; exists st'; tauto|left; eauto|destruct Hp|destruct Hp].
Qed.

Lemma rel_init : Rel tinit dinit.
Proof.
  split; [split; reflexivity|]. split; [reflexivity|]. split; [constructor|]. exists []. split; reflexivity.
Qed.

(* For every tree whose total element count stays below 2^63 (no Go int overflow): Translate + Compile +
   Evaluate accept exactly the scripts the in-order semantics accepts, with the same chain and the same
   program; they never panic.  (Which error is reported may differ: Translate resolves all names before
   Compile checks any bound.) *)
Theorem load_refines c : script_cost c < 2 ^ 63 ->
  match denote c with
  | Ok (vs, ops) => exists ir, load_tree c = Ok (ir, ops, vs)
  | Err _ => exists cls, load_tree c = Err cls
  | _ => False
  end.
Proof.
  intros Hc. rewrite script_cost_eq in Hc. unfold denote, load_tree, translate.
  pose proof (stmts_sim c tinit dinit rel_init ltac:(cbn [dinit dvals length]; lia)) as H.
  destruct (den_stmts c dinit) as [ds|cls|cls|]; cbn [obind]; [| |destruct H|destruct H].
  - destruct H as (st & -> & (Hs & Hn & Henv & zs & Hz & Hcz)). cbn [obind].
    pose proof (resolve_zview (tobjs st) (tinstrs st)) as Hr.
    destruct (map_opt (resolve_instr (tobjs st)) (tinstrs st)) as [p|]; [|congruence].
    rewrite Hz in Hr. injection Hr as ->. cbn [obind]. unfold compile. rewrite compile_loop_strip, Hcz. cbn [obind].
    destruct Hs as [-> _]. cbn [obind]. eauto.
  - destruct H as [(c0 & ->)|(st & -> & HP & (_ & zs & Hz))]; cbn [obind]; [eauto|].
    pose proof (resolve_zview (tobjs st) (tinstrs st)) as Hr.
    destruct (map_opt (resolve_instr (tobjs st)) (tinstrs st)) as [p|]; [|congruence].
    rewrite Hz in Hr. injection Hr as ->. cbn [obind]. unfold compile. rewrite compile_loop_strip.
    destruct (HP (tobjs st) [] (map strip p) (ext_refl _)) as (c0 & ->); [now rewrite app_nil_r|]. cbn [obind]. eauto.
Qed.

(* rejection classes: whatever the in-order semantics rejects, the code rejects (and produces no chain) *)
Corollary reject_denoted c cls : script_cost c < 2 ^ 63 -> denote c = Err cls -> exists cls', load_tree c = Err cls'.
Proof. intros Hc Hd. pose proof (load_refines c Hc) as H. now rewrite Hd in H. Qed.

(* acceptance: the chain and the program are the denoted ones *)
Corollary accept_denoted c vs ops : script_cost c < 2 ^ 63 -> denote c = Ok (vs, ops) ->
  exists ir, load_tree c = Ok (ir, ops, vs).
Proof. intros Hc Hd. pose proof (load_refines c Hc) as H. now rewrite Hd in H. Qed.

(* and conversely everything the code accepts is denoted, with the same chain *)
Corollary loaded_denoted c ir ops vs : script_cost c < 2 ^ 63 -> load_tree c = Ok (ir, ops, vs) -> denote c = Ok (vs, ops).
Proof.
  intros Hc Hl. pose proof (load_refines c Hc) as H. destruct (denote c) as [[vs' ops']|cls|cls|]; try contradiction.
  - destruct H as (ir' & H). rewrite Hl in H. now injection H as _ <- <-.
  - destruct H as (cls' & H). rewrite Hl in H. discriminate.
Qed.

(* source level: LoadString *)
Theorem load_m_spec src :
  match parse src with
  | Ok c => script_cost c < 2 ^ 63 ->
            match denote c with
            | Ok (vs, ops) => exists ir, load_m src = Ok (ir, ops, vs)
            | Err _ => exists cls, load_m src = Err cls
            | _ => False
            end
  | Err cls => load_m src = Err cls
  | Panic _ => False
  | OutOfFuel => load_m src = OutOfFuel
  end.
Proof.
  unfold load_m. destruct (parse src) as [c|cls|cls|] eqn:E; cbn [obind]; auto.
  - apply load_refines.
  - unfold parse in E. destruct (p_chain (S (length src)) src) as [e|e a r|]; try discriminate. destruct e; discriminate.
Qed.
