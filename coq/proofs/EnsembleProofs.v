(* C01 layer L0 and the composition of the layers: exec.Execute re-validates every result, so a
   result without error is a genuine chain ending at the target, whatever the algorithm. *)
From Coq Require Import String.
From Coq Require Import List NArith ZArith Bool Arith Lia.
From AV Require Import model.Proto model.Bits model.Lists model.Chain model.Program
  model.Heuristic model.Contfrac model.Decomp model.Opt model.Runs model.Binary model.Dict model.Ensemble
  proofs.ChainProofs.
Import ListNotations.
Open Scope Z_scope.

(* ------------------------------------------------------------------------------------------ *)
(* L0 *)

Theorem execute_sound a n orc r :
  execute a n orc = Ok r -> res_err r = None ->
  is_chain (res_chain r) /\ last (res_chain r) 0 = n /\
  length (res_program r) = (length (res_chain r) - 1)%nat /\
  evaluate (res_program r) = Ok (res_chain r).
Proof.
  unfold execute. destruct (find_chain a n orc) as [c|e|e|]; try discriminate.
  - destruct (program c) as [p|e|e|] eqn:Ep; try discriminate.
    + destruct c as [|x c']; [discriminate|].
      destruct (last (x :: c') 0 =? n) eqn:El.
      * intros H. injection H as <-. cbn [res_err res_chain res_program]. intros _.
        apply Z.eqb_eq in El. pose proof (program_evaluate _ _ Ep) as [He Hl].
        split; [apply program_iff; now exists p|]. auto.
      * intros H. injection H as <-. discriminate.
    + intros H. injection H as <-. discriminate.
  - intros H. injection H as <-. discriminate.
Qed.

(* the converse direction of Execute: a chain ending at n that FindChain returns is reported
   without error, together with its program *)
Theorem execute_complete a n orc c :
  find_chain a n orc = Ok c -> is_chain c -> last c 0 = n ->
  exists p, execute a n orc = Ok (mkResult None c p).
Proof.
  intros Hf Hc Hl. unfold execute. rewrite Hf. apply program_iff in Hc. destruct Hc as [p Hp].
  rewrite Hp. destruct c as [|x c']; [discriminate|]. apply Z.eqb_eq in Hl. rewrite Hl. now exists p.
Qed.

(* Execute never invents a panic: it panics only when FindChain does *)
Theorem execute_panic a n orc e :
  execute a n orc = Panic e -> find_chain a n orc = Panic e.
Proof.
  unfold execute. destruct (find_chain a n orc) as [c|e'|e'|]; try discriminate; [|congruence].
  destruct (program c) as [p|e'|e'|] eqn:Ep; try discriminate.
  - destruct c; [discriminate|]. destruct (last _ 0 =? n); discriminate.
  - exfalso. exact (proj1 (program_not_panic c) e' Ep).
Qed.

(* ------------------------------------------------------------------------------------------ *)
(* L4 and L5: the algorithms built from a decomposer and a sequence algorithm *)

From Coq Require Import Permutation.
From AV Require Import proofs.ListsProofs proofs.BitsProofs proofs.ProgramProofs proofs.C01Aux
  proofs.BinaryProofs proofs.DictProofs proofs.PrimitiveProofs proofs.OptProofs.

(* what FindChain must deliver for Execute to report no error *)
Definition chain_for (n : Z) (o : outcome (list Z)) : Prop :=
  exists c, o = Ok c /\ is_chain c /\ last c 0 = n.

(* ... for every sort oracle: the only other outcome is the model's own refusal of an observed
   order that is not a sorted permutation of its rebuilt sum (never with orc = None) *)
Definition find_chain_ok (a : alg_cfg) (n : Z) (orc : sort_oracle) : Prop :=
  chain_for n (find_chain a n orc) \/
  (orc <> None /\ find_chain a n orc = Err ($"sortoracle")).

(* the interface to C08 (proofs/ContfracProofs.find_sequence_alg_total): a sequence algorithm that
   always returns a chain containing the targets in which every element is at most 2 or at most some
   target (heuristic.FindSequence always merges the leader {1,2}, except for the exact list [1]);
   and that answers [1] for the list [1] *)
Definition seqalg_ok (s : seqalg) : Prop :=
  find_sequence_alg s [1] = Ok [1] /\
  forall ts, ts <> [] -> (forall t, In t ts -> 1 <= t) ->
  exists c, find_sequence_alg s ts = Ok c /\ is_chain c /\ (forall t, In t ts -> In t c) /\
            (forall x, In x c -> x <= 2 \/ exists t, In t ts /\ x <= t).

(* when the targets are exactly [1] or contain something >= 2, nothing exceeds the largest target *)
Lemma seqalg_ok_strong s : seqalg_ok s ->
  forall ts, ts <> [] -> (forall t, In t ts -> 1 <= t) -> (ts = [1] \/ exists t, In t ts /\ 2 <= t) ->
  exists c, find_sequence_alg s ts = Ok c /\ is_chain c /\ (forall t, In t ts -> In t c) /\
            (forall x, In x c -> exists t, In t ts /\ x <= t).
Proof.
  intros [H1 H] ts Hne Hpos Hcase. destruct (H ts Hne Hpos) as (c & E & Hc & Hin & Hb).
  exists c. split; [exact E|]. split; [exact Hc|]. split; [exact Hin|].
  destruct Hcase as [->|(t0 & Ht0 & H2)].
  - rewrite H1 in E. injection E as <-. intros x [<-|[]]. exists 1. split; [now left|lia].
  - intros x Hx. destruct (Hb x Hx) as [Hx2|Ht]; [|exact Ht]. exists t0. split; [exact Ht0|lia].
Qed.

Lemma ones_or_big ts : sorted_distinct ts -> ts <> [] -> (forall t, In t ts -> 1 <= t) ->
  ts = [1] \/ exists t, In t ts /\ 2 <= t.
Proof.
  intros Hsd Hne Hpos. destruct ts as [|a r]; [congruence|].
  destruct (Z.eq_dec a 1) as [->|Ha].
  - destruct r as [|b r']; [now left|]. right. exists b. split; [right; now left|].
    cbn [sorted_distinct] in Hsd. pose proof (proj1 Hsd b (or_introl eq_refl)). lia.
  - right. exists a. split; [now left|]. specialize (Hpos a (or_introl eq_refl)). lia.
Qed.

Lemma all_one_or_big (l : list Z) : (forall z, In z l -> 1 <= z) ->
  (forall z, In z l -> z = 1) \/ exists t, In t l /\ 2 <= t.
Proof.
  induction l as [|a r IH]; intros Hpos; [left; intros z []|].
  destruct (Z.eq_dec a 1) as [->|Ha].
  - destruct IH as [IH|(t & Ht & H2)]; [intros z Hz; apply Hpos; now right| |].
    + left. intros z [<-|Hz]; [reflexivity|now apply IH].
    + right. exists t. split; [now right|exact H2].
  - right. exists a. split; [now left|]. specialize (Hpos a (or_introl eq_refl)). lia.
Qed.

(* the interface to C09: a decomposer that represents x exactly with non-zero dictionary entries *)
Definition decomp_ok (m : method) : Prop :=
  forall x, (1 <= x)%N -> exists s, decompose m x = Ok s /\ Decomp.sum_int s = x /\
                                    (forall t, In t s -> (1 <= D t)%N).

(* --- SortByExponent --- *)

Lemma insert_by_exponent_perm t : forall l, Permutation (insert_by_exponent t l) (t :: l).
Proof.
  induction l as [|u r IH]; cbn [insert_by_exponent]; [reflexivity|].
  destruct (E u <? E t)%N; [|reflexivity].
  apply perm_trans with (u :: t :: r); [constructor; exact IH|apply perm_swap].
Qed.

Lemma sort_by_exponent_perm s : Permutation (sort_by_exponent s) s.
Proof.
  unfold sort_by_exponent. induction s as [|t r IH]; cbn [fold_right]; [constructor|].
  apply perm_trans with (t :: fold_right insert_by_exponent [] r); [apply insert_by_exponent_perm|now constructor].
Qed.

Lemma insert_by_exponent_nondec t : forall l,
  nondecreasing_e (conv_sum l) = true -> nondecreasing_e (conv_sum (insert_by_exponent t l)) = true.
Proof.
  induction l as [|u r IH]; intros H; [reflexivity|]. cbn [insert_by_exponent].
  destruct (E u <? E t)%N eqn:Eut.
  - apply N.ltb_lt in Eut. destruct r as [|w r'].
    + cbn [insert_by_exponent conv_sum map]. rewrite nondec_unfold. cbn [conv_term snd nondecreasing_e].
      rewrite andb_true_r. apply N.leb_le. lia.
    + cbn [conv_sum map] in H. rewrite nondec_unfold in H. apply andb_true_iff in H. destruct H as [H1 H2].
      specialize (IH H2). cbn [insert_by_exponent] in *. destruct (E w <? E t)%N eqn:Ewt.
      * cbn [conv_sum map] in *. rewrite nondec_unfold, IH, andb_true_r. exact H1.
      * cbn [conv_sum map] in *. rewrite nondec_unfold, IH, andb_true_r. cbn [conv_term snd]. apply N.leb_le. lia.
  - apply N.ltb_ge in Eut. cbn [conv_sum map] in *. rewrite nondec_unfold, H, andb_true_r.
    cbn [conv_term snd]. now apply N.leb_le.
Qed.

Lemma sort_by_exponent_nondec s : nondecreasing_e (conv_sum (sort_by_exponent s)) = true.
Proof.
  unfold sort_by_exponent. induction s as [|t r IH]; cbn [fold_right]; [reflexivity|].
  now apply insert_by_exponent_nondec.
Qed.

(* --- Sum.Int in both models --- *)

Lemma term_int_conv t : Dict.term_int (conv_term t) = Z.of_N (Decomp.term_int t).
Proof.
  rewrite term_int_eq. unfold Decomp.term_int, conv_term. cbn [fst snd].
  rewrite N.shiftl_mul_pow2, N2Z.inj_mul, N2Z.inj_pow. reflexivity.
Qed.

Lemma sum_int_conv_fold : forall s a,
  Z.of_N (fold_left (fun acc t => (acc + Decomp.term_int t)%N) s a) = Z.of_N a + tsum (conv_sum s).
Proof.
  unfold conv_sum. induction s as [|t r IH]; intros a; cbn [fold_left map tsum]; [lia|].
  rewrite IH, N2Z.inj_add, term_int_conv. lia.
Qed.

Lemma sum_int_conv s : tsum (conv_sum s) = Z.of_N (Decomp.sum_int s).
Proof. unfold Decomp.sum_int. rewrite sum_int_conv_fold. lia. Qed.

Lemma term_le_tsum : forall l t, (forall u, In u l -> 0 < fst u) -> In t l -> fst t <= tsum l.
Proof.
  induction l as [|u r IH]; intros t Hpos Ht; [destruct Ht|]. cbn [tsum].
  assert (0 <= tsum r) by (apply tsum_nonneg; intros v Hv; specialize (Hpos v (or_intror Hv)); lia).
  pose proof (Hpos u (or_introl eq_refl)) as Hu.
  rewrite term_int_eq. assert (0 < 2 ^ Z.of_N (snd u)) by (apply Z.pow_pos_nonneg; lia).
  destruct Ht as [->|Ht]; [nia|].
  assert (fst t <= tsum r) by (apply IH; [intros v Hv; apply Hpos; now right|exact Ht]). nia.
Qed.

(* --- Sum.Dictionary --- *)

Lemma dictionary_Z s : map Z.of_N (dictionary s) = unique (sort (map (fun t => Z.of_N (D t)) s)).
Proof.
  unfold dictionary. rewrite map_map. rewrite <- (map_id (unique (sort _))) at 2.
  apply map_ext_in. intros z Hz. apply unique_In, sort_In, in_map_iff in Hz. destruct Hz as (t & <- & _).
  rewrite N2Z.id. reflexivity.
Qed.

Lemma dictionary_In s z : In z (map Z.of_N (dictionary s)) <-> exists t, In t s /\ Z.of_N (D t) = z.
Proof.
  rewrite dictionary_Z, unique_In, sort_In, in_map_iff. split; intros (t & H1 & H2); exists t; auto.
Qed.

(* --- the common tail: primitive, dictsumchain, append, Sort, Unique --- *)

Lemma reduce_and_build_ok sum c orc n :
  is_chain c -> sum <> [] -> nondecreasing_e sum = true ->
  (forall t, In t sum -> In (fst t) c) -> sum_int sum = n ->
  (forall x, In x c -> x <= n) ->
  (exists r, reduce_and_build sum c orc = Ok r /\ is_chain r /\ asc r /\ last r 0 = n) \/
  (orc <> None /\ reduce_and_build sum c orc = Err ($"sortoracle")).
Proof.
  intros Hc Hne Hnd Hin Hn Hle. unfold reduce_and_build.
  destruct (primitive_ok sum c orc Hc Hne Hnd Hin) as [([sum' c'] & E & Hpost)|(o & Eo & E)].
  - left. rewrite E. cbn [obind fst snd]. destruct Hpost as (Hs & Hnd' & Hne' & Hc' & Hin' & Hsub).
    cbn [fst snd] in *.
    destruct (dictsumchain_ok sum' c' Hne' Hnd' (is_chain_closed_set c' Hc') Hin')
      as (dc & Ed & Hcs & HV & Hdc & _ & _).
    rewrite Ed. cbn [obind]. exists (unique (sort (c' ++ dc))). split; [reflexivity|].
    destruct (sort_unique_chain _ Hcs) as [H1 H2]. split; [exact H1|]. split; [exact H2|].
    rewrite Hs, Hn in *. apply sort_unique_last; [exact Hcs|exact HV|].
    intros x Hx. apply in_app_iff in Hx. destruct Hx as [Hx|Hx]; [apply Hle, Hsub, Hx|apply Hdc, Hx].
  - right. rewrite E. split; [congruence|reflexivity].
Qed.

(* L4 for dict.Algorithm *)
Theorem dict_alg_ok m s : decomp_ok m -> seqalg_ok s -> forall n orc, 1 <= n ->
  (exists c, dict_find_chain m s n orc = Ok c /\ is_chain c /\ asc c /\ last c 0 = n) \/
  (orc <> None /\ dict_find_chain m s n orc = Err ($"sortoracle")).
Proof.
  intros Hm Hs n orc Hn. unfold dict_find_chain.
  destruct (Hm (Z.to_N n) ltac:(lia)) as (sum0 & Ed & Hsum & HD). rewrite Ed. cbn [obind].
  set (sum := sort_by_exponent sum0).
  assert (Hperm : Permutation sum sum0) by apply sort_by_exponent_perm.
  assert (HDs : forall t, In t sum -> (1 <= D t)%N) by (intros t Ht; apply HD; now apply (Permutation_in _ Hperm)).
  assert (Hval : tsum (conv_sum sum) = n).
  { rewrite (tsum_perm _ (conv_sum sum0)) by (apply Permutation_map; exact Hperm).
    rewrite sum_int_conv, Hsum. lia. }
  assert (Hne : sum <> []).
  { intros E. rewrite E in Hval. cbn [conv_sum map tsum] in Hval. lia. }
  assert (Hpos : forall u, In u (conv_sum sum) -> 0 < fst u).
  { intros u Hu. apply in_map_iff in Hu. destruct Hu as (t & <- & Ht). cbn [conv_term fst]. specialize (HDs t Ht). lia. }
  assert (Htsne : map Z.of_N (dictionary sum) <> []).
  { destruct sum as [|t r] eqn:Es; [congruence|]. intros E.
    assert (H : In (Z.of_N (D t)) (map Z.of_N (dictionary (t :: r)))) by (apply dictionary_In; exists t; split; [now left|reflexivity]).
    rewrite E in H. destruct H. }
  assert (Htspos : forall z, In z (map Z.of_N (dictionary sum)) -> 1 <= z).
  { intros z Hz. apply dictionary_In in Hz. destruct Hz as (t & Ht & <-). specialize (HDs t Ht). lia. }
  destruct (seqalg_ok_strong s Hs (map Z.of_N (dictionary sum)) Htsne Htspos) as (c & Ec & Hc & Hts & Hbound).
  - apply ones_or_big; [|exact Htsne|exact Htspos]. rewrite dictionary_Z. apply unique_sort_spec.
  - rewrite Ec. cbn [obind]. apply reduce_and_build_ok.
    + exact Hc.
    + intros E. apply Hne. destruct sum; [reflexivity|discriminate].
    + apply sort_by_exponent_nondec.
    + intros u Hu. apply in_map_iff in Hu. destruct Hu as (t & <- & Ht). cbn [conv_term fst].
      apply Hts. apply dictionary_In. now exists t.
    + rewrite sum_int_tsum. exact Hval.
    + intros x Hx. destruct (Hbound x Hx) as (z & Hz & Hxz). apply dictionary_In in Hz. destruct Hz as (t & Ht & <-).
      rewrite <- Hval. etransitivity; [exact Hxz|].
      apply (term_le_tsum (conv_sum sum) (conv_term t) Hpos). apply in_map. exact Ht.
Qed.

(* L5: the optimisation wrapper keeps a chain a chain with the same end *)
Theorem opt_ok a n orc : find_chain_ok a n orc -> find_chain_ok (AOpt a) n orc.
Proof.
  intros [(c & E & Hc & Hl)|[Ho E]]; unfold find_chain_ok, chain_for; cbn [find_chain]; rewrite E; cbn [obind].
  - left. destruct (optimize_valid c Hc) as (c' & Eo & Hc' & _ & _ & Hl' & _).
    exists c'. split; [exact Eo|]. split; [exact Hc'|]. congruence.
  - right. split; [exact Ho|reflexivity].
Qed.

Theorem binary_ok n orc : 1 <= n -> find_chain_ok ABinary n orc.
Proof.
  intros Hn. left. destruct (rtl_ok n Hn) as (c & E & Hc & _ & Hl). exists c. cbn [find_chain]. auto.
Qed.

Theorem dict_ok m s n orc : decomp_ok m -> seqalg_ok s -> 1 <= n -> find_chain_ok (ADict m s) n orc.
Proof.
  intros Hm Hs Hn. destruct (dict_alg_ok m s Hm Hs n orc Hn) as [(c & E & Hc & _ & Hl)|H]; [left|right; exact H].
  exists c. cbn [find_chain]. auto.
Qed.

(* a sequence algorithm used as a chain algorithm *)
Theorem seq_ok s n orc : seqalg_ok s -> 1 <= n ->
  (forall c, find_sequence_alg s [n] = Ok c -> asc c) -> find_chain_ok (ASeq s) n orc.
Proof.
  intros Hs Hn Hasc. left.
  destruct (seqalg_ok_strong s Hs [n] ltac:(discriminate)) as (c & E & Hc & Hin & Hb).
  - intros t [<-|[]]. exact Hn.
  - destruct (Z.eq_dec n 1) as [->|Hn1]; [now left|]. right. exists n. split; [now left|lia].
  - exists c. cbn [find_chain]. split; [exact E|]. split; [exact Hc|].
    (* the largest element of an ascending chain that contains n and is bounded by n *)
    specialize (Hasc c E). destruct Hasc as [_ Hinc].
    assert (Hne : c <> []) by (intros ->; destruct (Hin n (or_introl eq_refl))).
    pose proof (inc_le_last c n Hinc (Hin n (or_introl eq_refl))).
    destruct (Hb (last c 0) (last_In c Hne)) as (t & [<-|[]] & Ht). lia.
Qed.

(* find_chain_ok is exactly what makes Execute report a chain *)
Theorem execute_ok a n orc : find_chain_ok a n orc ->
  (exists r, execute a n orc = Ok r /\ res_err r = None /\ is_chain (res_chain r) /\ last (res_chain r) 0 = n /\
             length (res_program r) = (length (res_chain r) - 1)%nat /\ evaluate (res_program r) = Ok (res_chain r)) \/
  (orc <> None /\ execute a n orc = Ok (mkResult (Some ($"sortoracle")) [] [])).
Proof.
  intros [(c & E & Hc & Hl)|[Ho E]].
  - left. destruct (execute_complete a n orc c E Hc Hl) as [p Hp]. exists (mkResult None c p).
    split; [exact Hp|]. split; [reflexivity|]. exact (execute_sound a n orc _ Hp eq_refl).
  - right. split; [exact Ho|]. unfold execute. rewrite E. reflexivity.
Qed.

(* ------------------------------------------------------------------------------------------ *)
(* L4 for dict.RunsAlgorithm *)

From AV Require Import proofs.RunsProofs.

(* every element RunsChain appends in one step is at most the run of length la + lb *)
Lemma shift_loop_In rb : forall cnt t z, In z (Runs.shift_loop cnt rb t) ->
  exists u, (t + 1 <= u <= t + N.of_nat cnt)%N /\ z = rb * 2 ^ Z.of_N u.
Proof.
  induction cnt as [|cnt IH]; intros t z Hz; [destruct Hz|]. cbn [Runs.shift_loop] in Hz. destruct Hz as [<-|Hz].
  - exists (t + 1)%N. split; [lia|]. apply Z.shiftl_mul_pow2. lia.
  - destruct (IH _ _ Hz) as (u & Hu & ->). exists u. split; [lia|reflexivity].
Qed.

Lemma runs_step_bound lc c s k o c' s' x y :
  nth_error lc (fst o) = Some x -> nth_error lc (snd o) = Some y -> 0 <= x -> 0 <= y -> x + y < 2 ^ 64 ->
  runs_step lc (c, s) k o = Ok (c', s') ->
  forall z, In z c' -> In z c \/ z <= 2 ^ (x + y) - 1.
Proof.
  intros Ex Ey Hx Hy Hsmall. unfold runs_step. rewrite Ex, Ey.
  destruct (nth_error lc (S k)) as [zk|]; [|discriminate].
  destruct (min_max x y) as [a b] eqn:Emm. rewrite min_max_spec in Emm. injection Emm as <- <-.
  destruct (negb (is_uint64 zk)); [discriminate|].
  intros H. injection H as <- _. intros z Hz.
  set (la := Z.to_N (Z.min x y)) in *. set (lb := Z.to_N (Z.max x y)) in *.
  assert (Hsum : Z.of_N la + Z.of_N lb = x + y) by (unfold la, lb; rewrite !Z2N.id by lia; lia).
  assert (Hpw : 2 ^ (x + y) = 2 ^ Z.of_N la * 2 ^ Z.of_N lb) by (rewrite <- Z.pow_add_r by lia; f_equal; lia).
  apply in_app_iff in Hz. destruct Hz as [Hz|Hz]; [now left|]. right.
  apply in_app_iff in Hz. destruct Hz as [Hz|[<-|[]]].
  - apply shift_loop_In in Hz. destruct Hz as (u & Hu & ->). rewrite ones_eq.
    assert (Hule : (u <= la)%N) by lia.
    assert (Hmono : 2 ^ Z.of_N u <= 2 ^ Z.of_N la) by (apply Z.pow_le_mono_r; lia).
    assert (0 < 2 ^ Z.of_N u) by (apply Z.pow_pos_nonneg; lia).
    assert (0 < 2 ^ Z.of_N lb) by (apply Z.pow_pos_nonneg; lia). nia.
  - unfold wrap64. rewrite N.mod_small.
    + rewrite ones_eq, N2Z.inj_add, Hsum. lia.
    + apply N2Z.inj_lt. rewrite N2Z.inj_add, Hsum, N2Z.inj_pow. exact Hsmall.
Qed.

Lemma runs_loop_bound lc (B : Z -> Prop) : forall p k c s c',
  (forall o, In o p -> exists x y, nth_error lc (fst o) = Some x /\ nth_error lc (snd o) = Some y /\
                                   0 <= x /\ 0 <= y /\ x + y < 2 ^ 64 /\ forall z, z <= 2 ^ (x + y) - 1 -> B z) ->
  (forall z, In z c -> B z) ->
  runs_loop lc p k (c, s) = Ok c' -> forall z, In z c' -> B z.
Proof.
  induction p as [|o p IH]; intros k c s c' Hp Hc H; cbn [runs_loop] in H.
  - injection H as <-. exact Hc.
  - destruct (runs_step lc (c, s) k o) as [[c1 s1]| | |] eqn:E1; try discriminate. cbn [obind] in H.
    destruct (Hp o (or_introl eq_refl)) as (x & y & Ex & Ey & Hx & Hy & Hs & HB).
    apply (IH (S k) c1 s1 c'); [intros o' Ho'; apply Hp; now right| |exact H].
    intros z Hz. destruct (runs_step_bound lc c s k o c1 s1 x y Ex Ey Hx Hy Hs E1 z Hz) as [Hin|Hle]; auto.
Qed.

Theorem runs_chain_bound lc c : is_chain lc -> (forall l, In l lc -> l < 2 ^ 64) -> runs_chain lc = Ok c ->
  forall z, In z c -> exists l, In l lc /\ z <= 2 ^ l - 1.
Proof.
  intros Hc Hsmall H. unfold runs_chain in H. destruct (program lc) as [p| | |] eqn:Ep; try discriminate.
  cbn [obind] in H. destruct (program_ops lc p Ep) as [Hlen Hops].
  pose proof (fun x => chain_pos lc x Hc) as Hpos.
  apply (runs_loop_bound lc (fun z => exists l, In l lc /\ z <= 2 ^ l - 1) p 0%nat [1] [] c); [| |exact H].
  - intros [i j] Ho. apply In_nth_error in Ho. destruct Ho as [k Hk]. destruct (Hops k i j Hk) as [Hij Hs].
    assert (Hklt : (k < length p)%nat).
    { destruct (Nat.lt_ge_cases k (length p)) as [|Hge]; [assumption|].
      apply nth_error_None in Hge. unfold op in *. rewrite Hge in Hk. discriminate. }
    exists (nz lc i), (nz lc j). cbn [fst snd]. unfold nz.
    split; [apply nth_error_nth'; lia|]. split; [apply nth_error_nth'; lia|].
    assert (Hi : In (nz lc i) lc) by (apply nz_In; lia). assert (Hj : In (nz lc j) lc) by (apply nz_In; lia).
    assert (Hk' : In (nz lc (S k)) lc) by (apply nz_In; lia).
    pose proof (Hpos _ Hi). pose proof (Hpos _ Hj). fold (nz lc i) (nz lc j).
    split; [lia|]. split; [lia|]. split; [rewrite Hs; now apply Hsmall|].
    intros z Hz. exists (nz lc (S k)). split; [exact Hk'|]. rewrite <- Hs. exact Hz.
  - intros z [<-|[]]. exists 1. split; [|cbn; lia]. destruct Hc as [[r ->] _]. now left.
Qed.

(* bit lengths *)
Lemma bitlen_ones_pow l : (1 <= l)%N -> bitlen (2 ^ Z.of_N l - 1) = l.
Proof.
  intros Hl. assert (Hp : 2 <= 2 ^ Z.of_N l).
  { change 2 with (2 ^ 1) at 1. apply Z.pow_le_mono_r; lia. }
  pose proof (bitlen_bounds (2 ^ Z.of_N l - 1) ltac:(lia)) as [H1 H2].
  set (b := bitlen (2 ^ Z.of_N l - 1)) in *.
  assert (Z.of_N l <= Z.of_N b).
  { destruct (Z.le_gt_cases (Z.of_N l) (Z.of_N b)) as [|Hgt]; [assumption|].
    assert (2 ^ (Z.of_N b + 1) <= 2 ^ Z.of_N l) by (apply Z.pow_le_mono_r; lia).
    rewrite Z.pow_add_r in H by lia. assert (0 < 2 ^ Z.of_N b) by (apply Z.pow_pos_nonneg; lia). lia. }
  assert (Z.of_N b - 1 < Z.of_N l).
  { destruct (Z.lt_ge_cases (Z.of_N b - 1) (Z.of_N l)) as [|Hge]; [assumption|].
    assert (2 ^ Z.of_N l <= 2 ^ (Z.of_N b - 1)) by (apply Z.pow_le_mono_r; lia). lia. }
  lia.
Qed.

Lemma bitlen_mono x y : 0 < x -> x <= y -> (bitlen x <= bitlen y)%N.
Proof.
  intros Hx Hxy. pose proof (bitlen_bounds x Hx) as [H1 _]. pose proof (bitlen_bounds y ltac:(lia)) as [_ H2].
  destruct (N.le_gt_cases (bitlen x) (bitlen y)) as [|Hgt]; [assumption|].
  assert (2 ^ Z.of_N (bitlen y) <= 2 ^ (Z.of_N (bitlen x) - 1)) by (apply Z.pow_le_mono_r; lia). lia.
Qed.

(* RunLength.Decompose ends with SortByExponent *)
Lemma runlength_sorted T x s : decompose (RunLength T) x = Ok s -> nondecreasing_e (conv_sum s) = true.
Proof.
  cbn [decompose]. unfold runlength_decompose.
  destruct (runlength_loop (fuel_of x) x T (bitlen_int x - 1)) as [s0| | |]; try discriminate. cbn [obind].
  intros H. injection H as <-. apply sort_by_exponent_nondec.
Qed.

(* the extra fact about RunLength{T: 0} that the runs algorithm relies on (interface to C09):
   every dictionary entry is a run of ones *)
Definition runlength_ones : Prop :=
  forall x s, decompose (RunLength 0) x = Ok s ->
  forall t, In t s -> exists l, (1 <= l)%N /\ Z.of_N (D t) = 2 ^ Z.of_N l - 1.

Theorem runs_alg_ok s : decomp_ok (RunLength 0) -> runlength_ones -> seqalg_ok s ->
  forall n orc, 1 <= n -> Z.of_N (bitlen n) < 2 ^ 64 ->
  (exists c, runs_find_chain s n orc = Ok c /\ is_chain c /\ asc c /\ last c 0 = n) \/
  (orc <> None /\ runs_find_chain s n orc = Err ($"sortoracle")).
Proof.
  intros Hm Hones Hs n orc Hn Hbits. unfold runs_find_chain.
  destruct (Hm (Z.to_N n) ltac:(lia)) as (sum & Ed & Hsum & HD). rewrite Ed. cbn [obind].
  assert (Hval : tsum (conv_sum sum) = n) by (rewrite sum_int_conv, Hsum; lia).
  assert (Hne : sum <> []) by (intros E; rewrite E in Hval; cbn [conv_sum map tsum] in Hval; lia).
  assert (Hpos : forall u, In u (conv_sum sum) -> 0 < fst u).
  { intros u Hu. apply in_map_iff in Hu. destruct Hu as (t & <- & Ht). cbn [conv_term fst]. specialize (HD t Ht). lia. }
  assert (HDle : forall t, In t sum -> Z.of_N (D t) <= n).
  { intros t Ht. rewrite <- Hval. apply (term_le_tsum (conv_sum sum) (conv_term t) Hpos). now apply in_map. }
  set (lengths := map (fun r => Z.of_N (bitlen (Z.of_N r))) (dictionary sum)).
  assert (Hlen_In : forall z, In z lengths <-> exists t, In t sum /\ z = Z.of_N (bitlen (Z.of_N (D t)))).
  { intros z. unfold lengths. rewrite in_map_iff. split.
    - intros (r & <- & Hr). assert (Hr' : In (Z.of_N r) (map Z.of_N (dictionary sum))) by now apply in_map.
      apply dictionary_In in Hr'. destruct Hr' as (t & Ht & Et). exists t. split; [exact Ht|]. now rewrite Et.
    - intros (t & Ht & ->). assert (Hr' : In (Z.of_N (D t)) (map Z.of_N (dictionary sum))) by (apply dictionary_In; now exists t).
      apply in_map_iff in Hr'. destruct Hr' as (r & Er & Hr). exists r. split; [now rewrite Er|exact Hr]. }
  assert (Hlen_run : forall t, In t sum -> (1 <= bitlen (Z.of_N (D t)))%N /\
                     Z.of_N (D t) = 2 ^ Z.of_N (bitlen (Z.of_N (D t))) - 1).
  { intros t Ht. destruct (Hones _ _ Ed t Ht) as (l & Hl & E).
    assert (Eb : bitlen (Z.of_N (D t)) = l) by (rewrite E; now apply bitlen_ones_pow).
    rewrite Eb. split; [exact Hl|exact E]. }
  assert (Hlne : lengths <> []).
  { destruct sum as [|t r] eqn:Es; [congruence|]. intros E.
    assert (H : In (Z.of_N (bitlen (Z.of_N (D t)))) lengths) by (apply Hlen_In; exists t; split; [now left|reflexivity]).
    rewrite E in H. destruct H. }
  assert (Hlpos : forall z, In z lengths -> 1 <= z).
  { intros z Hz. apply Hlen_In in Hz. destruct Hz as (t & Ht & ->). destruct (Hlen_run t Ht) as [H1 _]. lia. }
  destruct (seqalg_ok_strong s Hs lengths Hlne Hlpos) as (lc & Elc & Hlc & Hlin & Hlb).
  - destruct (all_one_or_big lengths Hlpos) as [Hall|Hbig]; [left|right; exact Hbig].
    (* every run has length 1, so the dictionary is {1} *)
    assert (Hts1 : forall z, In z (map Z.of_N (dictionary sum)) -> z = 1).
    { intros z Hz. apply dictionary_In in Hz. destruct Hz as (t & Ht & <-). destruct (Hlen_run t Ht) as [_ E].
      assert (Hb1 : Z.of_N (bitlen (Z.of_N (D t))) = 1) by (apply Hall, Hlen_In; now exists t).
      rewrite E, Hb1. reflexivity. }
    assert (Hd1 : map Z.of_N (dictionary sum) = [1]).
    { destruct (ones_or_big (map Z.of_N (dictionary sum))) as [E|(t & Ht & H2)]; [| | |exact E|].
      - rewrite dictionary_Z. apply unique_sort_spec.
      - destruct sum as [|t r] eqn:Es; [congruence|]. intros E.
        assert (H : In (Z.of_N (D t)) (map Z.of_N (dictionary (t :: r)))) by (apply dictionary_In; exists t; split; [now left|reflexivity]).
        rewrite E in H. destruct H.
      - intros z Hz. rewrite (Hts1 z Hz). lia.
      - rewrite (Hts1 t Ht) in H2. lia. }
    unfold lengths. destruct (dictionary sum) as [|a [|b r]]; cbn [map] in Hd1; try discriminate.
    injection Hd1 as Ea. assert (a = 1%N) by lia. subst a. reflexivity.
  - rewrite Elc. cbn [obind].
    assert (Hsmall : forall l, In l lc -> l < 2 ^ 64).
    { intros l Hl. destruct (Hlb l Hl) as (z & Hz & Hlz). apply Hlen_In in Hz. destruct Hz as (t & Ht & ->).
      specialize (HD t Ht). pose proof (bitlen_mono (Z.of_N (D t)) n ltac:(lia) (HDle t Ht)). lia. }
    destruct (runs_chain_valid lc Hlc Hsmall) as (c & Ec & Hc & Hruns). rewrite Ec. cbn [obind].
    apply reduce_and_build_ok.
    + exact Hc.
    + intros E. apply Hne. destruct sum; [reflexivity|discriminate].
    + exact (runlength_sorted _ _ _ Ed).
    + intros u Hu. apply in_map_iff in Hu. destruct Hu as (t & <- & Ht). cbn [conv_term fst].
      destruct (Hlen_run t Ht) as [_ E]. rewrite E. apply Hruns. apply Hlin. apply Hlen_In. now exists t.
    + rewrite sum_int_tsum. exact Hval.
    + intros z Hz. destruct (runs_chain_bound lc c Hlc Hsmall Ec z Hz) as (l & Hl & Hzl).
      destruct (Hlb l Hl) as (z' & Hz' & Hlz'). apply Hlen_In in Hz'. destruct Hz' as (t & Ht & ->).
      destruct (Hlen_run t Ht) as [_ E]. specialize (HDle t Ht).
      assert (1 <= l) by (apply (chain_pos lc); assumption).
      assert (2 ^ l <= 2 ^ Z.of_N (bitlen (Z.of_N (D t)))) by (apply Z.pow_le_mono_r; lia). lia.
Qed.

Theorem runs_ok s n orc : decomp_ok (RunLength 0) -> runlength_ones -> seqalg_ok s ->
  1 <= n -> Z.of_N (bitlen n) < 2 ^ 64 -> find_chain_ok (ARuns s) n orc.
Proof.
  intros Hm Ho Hs Hn Hb. destruct (runs_alg_ok s Hm Ho Hs n orc Hn Hb) as [(c & E & Hc & _ & Hl)|H]; [left|right; exact H].
  exists c. cbn [find_chain]. auto.
Qed.

(* ------------------------------------------------------------------------------------------ *)
(* every configuration, by structure; the ensemble *)

(* a sequence algorithm whose chains come out ascending (true of both families; interface to C08) *)
Definition seqalg_asc (s : seqalg) : Prop :=
  forall ts c, ts <> [] -> (forall t, In t ts -> 1 <= t) -> find_sequence_alg s ts = Ok c -> asc c.

(* what a configuration needs from C08 (sequence algorithm) and C09 (decomposer) *)
Fixpoint cfg_hyps (a : alg_cfg) : Prop :=
  match a with
  | ABinary => True
  | ADict m s => decomp_ok m /\ seqalg_ok s
  | ARuns s => decomp_ok (RunLength 0) /\ runlength_ones /\ seqalg_ok s
  | AOpt a' => cfg_hyps a'
  | ASeq s => seqalg_ok s /\ seqalg_asc s
  end.

Theorem find_chain_ok_all a : cfg_hyps a ->
  forall n orc, 1 <= n -> Z.of_N (bitlen n) < 2 ^ 64 -> find_chain_ok a n orc.
Proof.
  induction a as [|m s|s|a IH|s]; cbn [cfg_hyps]; intros H n orc Hn Hb.
  - now apply binary_ok.
  - destruct H. now apply dict_ok.
  - destruct H as (H1 & H2 & H3). now apply runs_ok.
  - apply opt_ok. now apply IH.
  - destruct H as [H1 H2]. apply seq_ok; [exact H1|exact Hn|]. intros c. apply H2; [discriminate|].
    intros t [<-|[]]. exact Hn.
Qed.

Lemma ensemble_members a : In a ensemble ->
  (exists m s, a = AOpt (ADict m s) /\ In m ensemble_decomposers /\ In s ensemble_seqalgs) \/
  (exists s, a = AOpt (ARuns s) /\ In s ensemble_seqalgs).
Proof.
  unfold ensemble. intros H. apply in_map_iff in H. destruct H as (b & <- & Hb).
  apply in_app_iff in Hb. destruct Hb as [Hb|Hb].
  - left. apply in_flat_map in Hb. destruct Hb as (m & Hm & Hb). apply in_map_iff in Hb.
    destruct Hb as (s & <- & Hs). now exists m, s.
  - right. apply in_map_iff in Hb. destruct Hb as (s & <- & Hs). now exists s.
Qed.

Lemma runlength0_in_ensemble : In (RunLength 0) ensemble_decomposers.
Proof. unfold ensemble_decomposers. apply in_app_iff. right. apply in_app_iff. left. now left. Qed.

Theorem ensemble_hyps :
  (forall m, In m ensemble_decomposers -> decomp_ok m) -> runlength_ones ->
  (forall s, In s ensemble_seqalgs -> seqalg_ok s) ->
  forall a, In a ensemble -> cfg_hyps a.
Proof.
  intros Hd Ho Hs a Ha. destruct (ensemble_members a Ha) as [(m & s & -> & Hm & Hs')|(s & -> & Hs')]; cbn [cfg_hyps].
  - split; [now apply Hd|now apply Hs].
  - split; [apply Hd, runlength0_in_ensemble|]. split; [exact Ho|now apply Hs].
Qed.

(* the ensemble as data *)
Lemma ensemble_length : length ensemble = 200%nat.
Proof. vm_compute. reflexivity. Qed.

(* ------------------------------------------------------------------------------------------ *)
(* discharging the C08 interface: every configuration that C08 proves total *)

From AV Require Import proofs.ContfracProofs.

Lemma find_sequence_alg_one a : find_sequence_alg a [1] = Ok [1].
Proof. destruct a as [hs|s]; [reflexivity|]. destruct s; vm_compute; reflexivity. Qed.

Theorem seqalg_total_ok a : seqalg_total a = true -> seqalg_ok a /\ seqalg_asc a.
Proof.
  intros Ht. split; [split; [apply find_sequence_alg_one|]|].
  - intros ts Hne Hpos.
    destruct (find_sequence_alg_total a Ht ts Hne) as (c & E & Hc & _ & Hin & Hb).
    + intros t H. specialize (Hpos t H). lia.
    + exists c. auto.
  - intros ts c Hne Hpos E.
    pose proof (find_sequence_alg_sound a ts Hne) as H. rewrite E in H. apply H.
    intros t Ht'. specialize (Hpos t Ht'). lia.
Qed.

Lemma ensemble_seqalgs_total : forall s, In s ensemble_seqalgs -> seqalg_total s = true.
Proof.
  intros s H. vm_compute in H. repeat (destruct H as [<-|H]; [reflexivity|]). destruct H.
Qed.

Lemma ensemble_seqalgs_ok : forall s, In s ensemble_seqalgs -> seqalg_ok s.
Proof. intros s H. apply seqalg_total_ok, ensemble_seqalgs_total, H. Qed.

(* ------------------------------------------------------------------------------------------ *)
(* the statements of props/C01.v in unfolded form *)

Definition good_result_u (n : Z) (r : result) : Prop :=
  res_err r = None /\ is_chain (res_chain r) /\ last (res_chain r) 0 = n /\
  length (res_program r) = (length (res_chain r) - 1)%nat /\
  evaluate (res_program r) = Ok (res_chain r).

Lemma chain_for_execute a n orc : chain_for n (find_chain a n orc) ->
  exists r, execute a n orc = Ok r /\ good_result_u n r.
Proof.
  intros (c & E & Hc & Hl). destruct (execute_complete a n orc c E Hc Hl) as [p Hp].
  exists (mkResult None c p). split; [exact Hp|]. split; [reflexivity|]. exact (execute_sound a n orc _ Hp eq_refl).
Qed.

Theorem binary_execute a : a = ABinary \/ a = AOpt ABinary -> forall n orc, 1 <= n ->
  exists r, execute a n orc = Ok r /\ good_result_u n r.
Proof.
  intros Ha n orc Hn. apply chain_for_execute. destruct (rtl_ok n Hn) as (c & Ec & Hc & _ & Hl).
  destruct Ha as [->| ->]; cbn [find_chain]; rewrite Ec.
  - now exists c.
  - cbn [obind]. destruct (optimize_valid c Hc) as (c' & Eo & Hc' & _ & _ & Hl' & _).
    exists c'. split; [exact Eo|]. split; [exact Hc'|congruence].
Qed.

Theorem any_configuration a : cfg_hyps a ->
  forall n orc, 1 <= n -> Z.of_N (bitlen n) < 2 ^ 64 ->
  (exists r, execute a n orc = Ok r /\ good_result_u n r) \/
  (orc <> None /\ execute a n orc = Ok (mkResult (Some ($"sortoracle")) [] [])).
Proof.
  intros H n orc Hn Hb. destruct (find_chain_ok_all a H n orc Hn Hb) as [Hc|[Ho E]].
  - left. now apply chain_for_execute.
  - right. split; [exact Ho|]. unfold execute. rewrite E. reflexivity.
Qed.

Theorem ensemble_partial :
  (forall m, In m ensemble_decomposers -> decomp_ok m) -> runlength_ones ->
  forall a, In a ensemble ->
  forall n orc, 1 <= n -> Z.of_N (bitlen n) < 2 ^ 64 ->
  (exists r, execute a n orc = Ok r /\ good_result_u n r) \/
  (orc <> None /\ execute a n orc = Ok (mkResult (Some ($"sortoracle")) [] [])).
Proof. intros Hd Ho a Ha. apply any_configuration. apply ensemble_hyps; auto using ensemble_seqalgs_ok. Qed.

Theorem ensemble_shape : length ensemble = 200%nat /\
  forall a, In a ensemble ->
    (exists m s, a = AOpt (ADict m s) /\ In m ensemble_decomposers /\ In s ensemble_seqalgs) \/
    (exists s, a = AOpt (ARuns s) /\ In s ensemble_seqalgs).
Proof. split; [exact ensemble_length|exact ensemble_members]. Qed.

(* the configurations of the property's list, with and without the optimisation wrapper *)
Definition at_u (a : alg_cfg) : Prop :=
  forall n orc, 1 <= n -> Z.of_N (bitlen n) < 2 ^ 64 ->
  (exists r, execute a n orc = Ok r /\ good_result_u n r) \/
  (orc <> None /\ execute a n orc = Ok (mkResult (Some ($"sortoracle")) [] [])).

Theorem sequence_configurations s : seqalg_total s = true ->
  forall a, a = ASeq s \/ a = AOpt (ASeq s) -> at_u a.
Proof.
  intros Ht a Ha. unfold at_u. apply any_configuration. destruct (seqalg_total_ok s Ht) as [H1 H2].
  destruct Ha as [->| ->]; cbn [cfg_hyps]; auto.
Qed.

Theorem dictionary_configurations m s : decomp_ok m -> seqalg_total s = true ->
  forall a, a = ADict m s \/ a = AOpt (ADict m s) -> at_u a.
Proof.
  intros Hm Ht a Ha. unfold at_u. apply any_configuration. destruct (seqalg_total_ok s Ht) as [H1 H2].
  destruct Ha as [->| ->]; cbn [cfg_hyps]; auto.
Qed.

Theorem runs_configurations s : decomp_ok (RunLength 0) -> runlength_ones -> seqalg_total s = true ->
  forall a, a = ARuns s \/ a = AOpt (ARuns s) -> at_u a.
Proof.
  intros Hm Ho Ht a Ha. unfold at_u. apply any_configuration. destruct (seqalg_total_ok s Ht) as [H1 H2].
  destruct Ha as [->| ->]; cbn [cfg_hyps]; auto.
Qed.

(* ------------------------------------------------------------------------------------------ *)
(* discharging the C09 interface *)

From AV Require proofs.DecompProofs.

Lemma decomp_ok_valid m : DecompProofs.valid_method m -> decomp_ok m.
Proof. intros H x _. exact (DecompProofs.decomp_interface m x H). Qed.

Lemma runlength_ones_holds : runlength_ones.
Proof.
  intros x s Hs t Ht. destruct (DecompProofs.runlength_ones 0%N x s Hs t Ht) as (l & H1 & _ & H2).
  exists l. split; [exact H1|exact H2].
Qed.

Lemma ensemble_decomposers_valid : forall m, In m ensemble_decomposers -> DecompProofs.valid_method m.
Proof.
  intros m H. vm_compute in H.
  repeat (destruct H as [<-|H]; [cbn [DecompProofs.valid_method]; lia|]). destruct H.
Qed.

(* every configuration of the property's list: any decomposer with K >= 1 (any T), any sequence
   algorithm that C08 proves total, runs, binary, sequence algorithms as chain algorithms, each with
   any nesting of the optimisation wrapper *)
Fixpoint cfg_valid (a : alg_cfg) : Prop :=
  match a with
  | ABinary => True
  | ADict m s => DecompProofs.valid_method m /\ seqalg_total s = true
  | ARuns s => seqalg_total s = true
  | AOpt a' => cfg_valid a'
  | ASeq s => seqalg_total s = true
  end.

Lemma cfg_valid_hyps a : cfg_valid a -> cfg_hyps a.
Proof.
  induction a as [|m s|s|a IH|s]; cbn [cfg_valid cfg_hyps]; intros H.
  - exact I.
  - destruct H as [Hm Hs]. split; [now apply decomp_ok_valid|apply (seqalg_total_ok s Hs)].
  - split; [apply decomp_ok_valid; exact I|]. split; [exact runlength_ones_holds|apply (seqalg_total_ok s H)].
  - now apply IH.
  - apply (seqalg_total_ok s H).
Qed.

Theorem every_configuration a : cfg_valid a -> at_u a.
Proof. intros H. unfold at_u. apply any_configuration. now apply cfg_valid_hyps. Qed.

Lemma ensemble_valid a : In a ensemble -> cfg_valid a.
Proof.
  intros Ha. destruct (ensemble_members a Ha) as [(m & s & -> & Hm & Hs)|(s & -> & Hs)]; cbn [cfg_valid].
  - split; [now apply ensemble_decomposers_valid|now apply ensemble_seqalgs_total].
  - now apply ensemble_seqalgs_total.
Qed.

Theorem ensemble_ok : forall a, In a ensemble -> at_u a.
Proof. intros a Ha. apply every_configuration, ensemble_valid, Ha. Qed.

(* with the stable sort the refusal alternative disappears *)
Theorem every_configuration_stable a : cfg_valid a ->
  forall n, 1 <= n -> Z.of_N (bitlen n) < 2 ^ 64 ->
  exists r, execute a n None = Ok r /\ good_result_u n r.
Proof.
  intros H n Hn Hb. destruct (every_configuration a H n None Hn Hb) as [Hr|[Ho _]]; [exact Hr|congruence].
Qed.
