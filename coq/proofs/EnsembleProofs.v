(* C01 layer L0 and the composition of the layers: exec.Execute re-validates every result, so a
   result without error is a genuine chain ending at the target, whatever the algorithm. *)
From Coq Require Import String.
From Coq Require Import List NArith ZArith Bool Arith Lia.
From AV Require Import model.Proto model.Bits model.Lists model.Chain model.Program
  model.Heuristic model.Contfrac model.Decomp model.Opt model.Runs model.Binary model.Dict model.Ensemble
  proofs.ChainProofs.
Import ListNotations.
Open Scope Z_scope.

(* ------------------------------------------------------------------------------------------ *)
(* L0 *)

Theorem execute_sound a n orc r :
  execute a n orc = Ok r -> res_err r = None ->
  is_chain (res_chain r) /\ last (res_chain r) 0 = n /\
  length (res_program r) = (length (res_chain r) - 1)%nat /\
  evaluate (res_program r) = Ok (res_chain r).
Proof.
  unfold execute. destruct (find_chain a n orc) as [c|e|e|]; try discriminate.
  - destruct (program c) as [p|e|e|] eqn:Ep; try discriminate.
    + destruct c as [|x c']; [discriminate|].
      destruct (last (x :: c') 0 =? n) eqn:El.
      * intros H. injection H as <-. cbn [res_err res_chain res_program]. intros _.
        apply Z.eqb_eq in El. pose proof (program_evaluate _ _ Ep) as [He Hl].
        split; [apply program_iff; now exists p|]. auto.
      * intros H. injection H as <-. discriminate.
    + intros H. injection H as <-. discriminate.
  - intros H. injection H as <-. discriminate.
Qed.

(* the converse direction of Execute: a chain ending at n that FindChain returns is reported
   without error, together with its program *)
Theorem execute_complete a n orc c :
  find_chain a n orc = Ok c -> is_chain c -> last c 0 = n ->
  exists p, execute a n orc = Ok (mkResult None c p).
Proof.
  intros Hf Hc Hl. unfold execute. rewrite Hf. apply program_iff in Hc. destruct Hc as [p Hp].
  rewrite Hp. destruct c as [|x c']; [discriminate|]. apply Z.eqb_eq in Hl. rewrite Hl. now exists p.
Qed.

(* Execute never invents a panic: it panics only when FindChain does *)
Theorem execute_panic a n orc e :
  execute a n orc = Panic e -> find_chain a n orc = Panic e.
Proof.
  unfold execute. destruct (find_chain a n orc) as [c|e'|e'|]; try discriminate; [|congruence].
  destruct (program c) as [p|e'|e'|] eqn:Ep; try discriminate.
  - destruct c; [discriminate|]. destruct (last _ 0 =? n); discriminate.
  - exfalso. exact (proj1 (program_not_panic c) e' Ep).
Qed.
