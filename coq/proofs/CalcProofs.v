(* Proofs for C13: the evaluator model (model/Calc.v) against the specification (CalcSpec.v). *)
From Coq Require Import String.
From Coq Require Import List NArith ZArith Bool Lia ZifyBool ZifyNat ZifyN.
From AV Require Import model.Proto model.Calc proofs.CalcSpec.
Import ListNotations.
Open Scope Z_scope.

(* ====================================================================================== *)
(* 1. One operator                                                                         *)
(* ====================================================================================== *)

(* ediv is Euclidean division: the remainder lies in [0, |y|) *)
Lemma ediv_euclid x y : y <> 0 -> 0 <= x - ediv x y * y < Z.abs y.
Proof.
  intros Hy. unfold ediv. destruct (y <? 0) eqn:E.
  - apply Z.ltb_lt in E.
    pose proof (Z.mod_pos_bound x (- y) ltac:(lia)) as Hm.
    pose proof (Z.div_mod x (- y) ltac:(lia)) as Hd. nia.
  - apply Z.ltb_ge in E.
    pose proof (Z.mod_pos_bound x y ltac:(lia)) as Hm.
    pose proof (Z.div_mod x y ltac:(lia)) as Hd. nia.
Qed.

Lemma ediv_is_equot x y : y <> 0 -> is_equot x y (ediv x y).
Proof.
  intros Hy. exists (x - ediv x y * y). split; [lia | now apply ediv_euclid].
Qed.

Lemma equot_unique x y q q' : is_equot x y q -> is_equot x y q' -> q = q'.
Proof.
  intros [r [H1 H2]] [r' [H1' H2']].
  destruct (Z.eq_dec q q') as [|Hne]; [assumption | exfalso].
  assert (Hd : (q - q') * y = r' - r) by lia.
  assert (Ha : Z.abs ((q - q') * y) < Z.abs y) by (rewrite Hd; lia).
  rewrite Z.abs_mul in Ha.
  assert (1 <= Z.abs (q - q')) by lia. nia.
Qed.

(* the value apply computes for "x o y": None when the evaluator reports a division by zero *)
Definition aply (o : bop) (x y : Z) : option Z :=
  if nonzero o && (y =? 0) then None
  else match arith o x y with Ok z => Some z | _ => None end.

Definition divzero : list N := $"divzero".

Lemma apply_aply o x y vs :
  apply o (y :: x :: vs) =
  match aply o x y with Some z => Ok (z :: vs) | None => Err divzero end.
Proof.
  unfold apply, aply.
  destruct o; cbn [nonzero andb arith obind]; try reflexivity.
  destruct (y =? 0); reflexivity.
Qed.

Lemma apply_short o vs : (length vs < 2)%nat -> apply o vs = Err $"toofew".
Proof.
  destruct vs as [|a [|b vs]]; cbn [length]; intros H; try reflexivity. lia.
Qed.

Lemma binop_aply o x y z : binop o x y z <-> aply o x y = Some z.
Proof.
  split.
  - intros H. destruct H; unfold aply; cbn [nonzero andb arith].
    + destruct (y <=? 0) eqn:E; [lia | reflexivity].
    + destruct (y <=? 0) eqn:E; [reflexivity | lia].
    + reflexivity.
    + destruct (y =? 0) eqn:E; [lia|]. f_equal.
      apply (equot_unique x y); [now apply ediv_is_equot | assumption].
    + reflexivity.
    + reflexivity.
  - unfold aply. destruct o; cbn [nonzero andb arith]; intros H.
    + injection H as <-. destruct (y <=? 0) eqn:E; [apply b_pow_nonpos | apply b_pow_pos]; lia.
    + injection H as <-. constructor.
    + destruct (y =? 0) eqn:E; [discriminate|]. injection H as <-.
      apply b_div; [lia | apply ediv_is_equot; lia].
    + injection H as <-. constructor.
    + injection H as <-. constructor.
Qed.

Lemma aply_total o x y : aply o x y = None -> o = Div /\ y = 0.
Proof.
  unfold aply. destruct o; cbn [nonzero andb arith]; try discriminate.
  destruct (y =? 0) eqn:E; [split; [reflexivity | lia] | discriminate].
Qed.

(* ====================================================================================== *)
(* 2. Token level: the shunting yard against the grammar                                   *)
(* ====================================================================================== *)

(* The loop of Eval over tokens instead of bytes (number() replaced by TNum). *)
Fixpoint run (ts : list tok) (operand : bool) (vs : list Z) (os : list bop) : outcome Z :=
  match ts with
  | [] => result vs os
  | TNum n :: ts' => if operand then run ts' false (n :: vs) os else Err $"operator"
  | TOp o :: ts' =>
      if operand then Err $"number"
      else obind (push_operator o vs os) (fun st => run ts' true (fst st) (snd st))
  end.

Definition yard (ts : list tok) : outcome Z := run ts true [] [].

(* does top stay on the stack when nxt arrives? (None = end of input: everything is popped) *)
Definition stop (top : bop) (nxt : option bop) : bool :=
  match nxt with
  | None => false
  | Some o => (prec top <? prec o)%N || ((prec top =? prec o)%N && rassoc o)
  end.

Definition cont (nxt : option bop) (rest : list tok) : list tok :=
  match nxt with Some o => TOp o :: rest | None => [] end.

Definition after (nxt : option bop) (rest : list tok) (vs : list Z) (os : list bop) : outcome Z :=
  run (cont nxt rest) false vs os.

Lemma after_nopop nxt rest a b vs top os :
  stop top nxt = false ->
  after nxt rest (b :: a :: vs) (top :: os) =
  match aply top a b with Some z => after nxt rest (z :: vs) os | None => Err divzero end.
Proof.
  intros Hs. destruct nxt as [o|]; unfold after, cont; cbn [run].
  - unfold push_operator. cbn [pop_while]. unfold stop in Hs. rewrite Hs.
    rewrite apply_aply. destruct (aply top a b); reflexivity.
  - cbn [result]. rewrite apply_aply. destruct (aply top a b); reflexivity.
Qed.

Lemma after_push o rest vs os :
  match os with [] => True | top :: _ => stop top (Some o) = true end ->
  after (Some o) rest vs os = run rest true vs (o :: os).
Proof.
  intros Hs. unfold after, cont. cbn [run]. unfold push_operator.
  destruct os as [|top os]; cbn [pop_while]; [reflexivity|].
  unfold stop in Hs. rewrite Hs. reflexivity.
Qed.

Lemma stop_pow top : stop top (Some Pow) = true.
Proof. destruct top; reflexivity. Qed.

(* the grammar with an explicit "division by zero inside" result (None) *)
Definition obin (o : bop) (r1 r2 : option Z) : option Z :=
  match r1, r2 with Some a, Some b => aply o a b | _, _ => None end.

Inductive Fg : list tok -> option Z -> Prop :=
| Fg_num n : Fg [TNum n] (Some n)
| Fg_pow n ts r : Fg ts r -> Fg (TNum n :: TOp Pow :: ts) (obin Pow (Some n) r).

Inductive Tg : list tok -> option Z -> Prop :=
| Tg_f ts r : Fg ts r -> Tg ts r
| Tg_mul ts1 ts2 r1 r2 o : Tg ts1 r1 -> Fg ts2 r2 -> (o = Mul \/ o = Div) ->
    Tg (ts1 ++ TOp o :: ts2) (obin o r1 r2).

Inductive Eg : list tok -> option Z -> Prop :=
| Eg_t ts r : Tg ts r -> Eg ts r
| Eg_add ts1 ts2 r1 r2 o : Eg ts1 r1 -> Tg ts2 r2 -> (o = Add \/ o = Sub) ->
    Eg (ts1 ++ TOp o :: ts2) (obin o r1 r2).

Definition goes (r : option Z) (k : Z -> outcome Z) : outcome Z :=
  match r with Some v => k v | None => Err divzero end.

(* running a factor's tokens, then the continuation = pushing its value, then the continuation *)
Lemma Fg_run ts r : Fg ts r -> forall nxt rest vs os, nxt <> Some Pow ->
  run (ts ++ cont nxt rest) true vs os = goes r (fun v => after nxt rest (v :: vs) os).
Proof.
  induction 1 as [n | n ts r HF IH]; intros nxt rest vs os Hn.
  - reflexivity.
  - cbn [app run].
    change (obind (push_operator Pow (n :: vs) os)
              (fun st => run (ts ++ cont nxt rest) true (fst st) (snd st)))
      with (after (Some Pow) (ts ++ cont nxt rest) (n :: vs) os).
    rewrite after_push by (destruct os; [exact I | apply stop_pow]).
    rewrite (IH nxt rest (n :: vs) (Pow :: os) Hn).
    destruct r as [v|]; cbn [goes obin]; [|reflexivity].
    rewrite after_nopop.
    + destruct (aply Pow n v); reflexivity.
    + destruct nxt as [[]|]; try reflexivity. congruence.
Qed.

(* the operator stack is "low": its top (if any) is + or - *)
Definition low (os : list bop) : Prop :=
  match os with [] => True | top :: _ => top = Add \/ top = Sub end.

Lemma low_stop_mul o os : (o = Mul \/ o = Div) -> low os ->
  match os with [] => True | top :: _ => stop top (Some o) = true end.
Proof.
  intros Ho Hl. destruct os as [|top os]; [exact I|].
  cbn [low] in Hl. destruct Ho as [-> | ->], Hl as [-> | ->]; reflexivity.
Qed.

Lemma Tg_run ts r : Tg ts r -> forall nxt rest vs os, nxt <> Some Pow -> low os ->
  run (ts ++ cont nxt rest) true vs os = goes r (fun v => after nxt rest (v :: vs) os).
Proof.
  induction 1 as [ts r HF | ts1 ts2 r1 r2 o HT IH HF Ho]; intros nxt rest vs os Hn Hl.
  - now apply (Fg_run _ _ HF).
  - rewrite <- app_assoc. cbn [app].
    change (TOp o :: ts2 ++ cont nxt rest) with (cont (Some o) (ts2 ++ cont nxt rest)).
    rewrite IH; [| destruct Ho as [-> | ->]; congruence | assumption].
    destruct r1 as [v1|]; cbn [goes obin]; [|reflexivity].
    rewrite after_push by (now apply low_stop_mul).
    rewrite (Fg_run _ _ HF nxt rest (v1 :: vs) (o :: os) Hn).
    destruct r2 as [v2|]; cbn [goes]; [|reflexivity].
    rewrite after_nopop.
    + destruct (aply o v1 v2); reflexivity.
    + destruct nxt as [[]|]; destruct Ho as [-> | ->]; try reflexivity; congruence.
Qed.

Lemma Eg_run ts r : Eg ts r -> forall nxt rest vs,
  (nxt = None \/ nxt = Some Add \/ nxt = Some Sub) ->
  run (ts ++ cont nxt rest) true vs [] = goes r (fun v => after nxt rest (v :: vs) []).
Proof.
  induction 1 as [ts r HT | ts1 ts2 r1 r2 o HE IH HT Ho]; intros nxt rest vs Hn.
  - apply (Tg_run _ _ HT); [destruct Hn as [-> | [-> | ->]]; congruence | exact I].
  - rewrite <- app_assoc. cbn [app].
    change (TOp o :: ts2 ++ cont nxt rest) with (cont (Some o) (ts2 ++ cont nxt rest)).
    rewrite IH by (destruct Ho as [-> | ->]; auto).
    destruct r1 as [v1|]; cbn [goes obin]; [|reflexivity].
    rewrite after_push by exact I.
    rewrite (Tg_run _ _ HT nxt rest (v1 :: vs) [o]);
      [| destruct Hn as [-> | [-> | ->]]; congruence | exact Ho].
    destruct r2 as [v2|]; cbn [goes]; [|reflexivity].
    rewrite after_nopop.
    + destruct (aply o v1 v2); reflexivity.
    + destruct Hn as [-> | [-> | ->]]; destruct Ho as [-> | ->]; reflexivity.
Qed.

Lemma yard_complete_gen ts r : Eg ts r ->
  yard ts = match r with Some v => Ok v | None => Err divzero end.
Proof.
  intros HE. unfold yard.
  pose proof (Eg_run ts r HE None [] [] (or_introl eq_refl)) as H.
  cbn [cont] in H. rewrite app_nil_r in H. rewrite H.
  destruct r; reflexivity.
Qed.

(* the plain grammar is the Some-part of the generalised one *)
Lemma F_Fg ts v : F ts v -> Fg ts (Some v).
Proof.
  induction 1 as [n | n ts v z HF IH Hb].
  - constructor.
  - apply binop_aply in Hb.
    replace (Some z) with (obin Pow (Some n) (Some v)) by exact Hb. now constructor.
Qed.

Lemma T_Tg ts v : T ts v -> Tg ts (Some v).
Proof.
  induction 1 as [ts v HF | ts1 ts2 v1 v2 o z HT IH HF Ho Hb].
  - apply Tg_f. now apply F_Fg.
  - apply binop_aply in Hb.
    replace (Some z) with (obin o (Some v1) (Some v2)) by exact Hb.
    apply Tg_mul; [assumption | now apply F_Fg | assumption].
Qed.

Lemma E_Eg ts v : E ts v -> Eg ts (Some v).
Proof.
  induction 1 as [ts v HT | ts1 ts2 v1 v2 o z HE IH HT Ho Hb].
  - apply Eg_t. now apply T_Tg.
  - apply binop_aply in Hb.
    replace (Some z) with (obin o (Some v1) (Some v2)) by exact Hb.
    apply Eg_add; [assumption | now apply T_Tg | assumption].
Qed.

Lemma obin_some o r1 r2 z : obin o r1 r2 = Some z ->
  exists v1 v2, r1 = Some v1 /\ r2 = Some v2 /\ binop o v1 v2 z.
Proof.
  destruct r1 as [v1|], r2 as [v2|]; cbn [obin]; try discriminate.
  intros H. exists v1, v2. repeat split. now apply binop_aply.
Qed.

Lemma Fg_F ts r : Fg ts r -> forall v, r = Some v -> F ts v.
Proof.
  induction 1 as [n | n ts r HF IH]; intros v Hv.
  - injection Hv as <-. constructor.
  - apply obin_some in Hv. destruct Hv as [v1 [v2 [H1 [H2 Hb]]]].
    injection H1 as <-. eapply F_pow; [apply IH; exact H2 | exact Hb].
Qed.

Lemma Tg_T ts r : Tg ts r -> forall v, r = Some v -> T ts v.
Proof.
  induction 1 as [ts r HF | ts1 ts2 r1 r2 o HT IH HF Ho]; intros v Hv.
  - apply T_f. eapply Fg_F; eassumption.
  - apply obin_some in Hv. destruct Hv as [v1 [v2 [H1 [H2 Hb]]]].
    eapply T_mul; [apply IH; exact H1 | eapply Fg_F; eassumption | exact Ho | exact Hb].
Qed.

Lemma Eg_E ts r : Eg ts r -> forall v, r = Some v -> E ts v.
Proof.
  induction 1 as [ts r HT | ts1 ts2 r1 r2 o HE IH HT Ho]; intros v Hv.
  - apply E_t. eapply Tg_T; eassumption.
  - apply obin_some in Hv. destruct Hv as [v1 [v2 [H1 [H2 Hb]]]].
    eapply E_add; [apply IH; exact H1 | eapply Tg_T; eassumption | exact Ho | exact Hb].
Qed.

(* completeness: the yard computes the value the grammar assigns *)
Theorem yard_complete ts v : E ts v -> yard ts = Ok v.
Proof. intros H. apply E_Eg in H. now rewrite (yard_complete_gen _ _ H). Qed.

(* ---- totality of the generalised grammar on alternating token lists ---- *)
Lemma Fg_snoc_pow ts r n : Fg ts r -> exists r', Fg (ts ++ [TOp Pow; TNum n]) r'.
Proof.
  induction 1 as [m | m ts r HF [r' IH]].
  - eexists. cbn [app]. apply Fg_pow. apply Fg_num.
  - eexists. cbn [app]. apply Fg_pow. exact IH.
Qed.

Lemma Tg_snoc_pow ts r n : Tg ts r -> exists r', Tg (ts ++ [TOp Pow; TNum n]) r'.
Proof.
  destruct 1 as [ts r HF | ts1 ts2 r1 r2 o HT HF Ho].
  - destruct (Fg_snoc_pow _ _ n HF) as [r' H]. eexists. apply Tg_f. exact H.
  - destruct (Fg_snoc_pow _ _ n HF) as [r' H]. eexists.
    rewrite <- app_assoc. cbn [app]. apply Tg_mul; eassumption.
Qed.

Lemma Eg_snoc_pow ts r n : Eg ts r -> exists r', Eg (ts ++ [TOp Pow; TNum n]) r'.
Proof.
  destruct 1 as [ts r HT | ts1 ts2 r1 r2 o HE HT Ho].
  - destruct (Tg_snoc_pow _ _ n HT) as [r' H]. eexists. apply Eg_t. exact H.
  - destruct (Tg_snoc_pow _ _ n HT) as [r' H]. eexists.
    rewrite <- app_assoc. cbn [app]. apply Eg_add; eassumption.
Qed.

Lemma Tg_snoc_mul ts r o n : (o = Mul \/ o = Div) -> Tg ts r ->
  exists r', Tg (ts ++ [TOp o; TNum n]) r'.
Proof.
  intros Ho HT. eexists. apply Tg_mul; [exact HT | apply Fg_num | exact Ho].
Qed.

Lemma Eg_snoc_mul ts r o n : (o = Mul \/ o = Div) -> Eg ts r ->
  exists r', Eg (ts ++ [TOp o; TNum n]) r'.
Proof.
  intros Ho. destruct 1 as [ts r HT | ts1 ts2 r1 r2 o' HE HT Ho'].
  - destruct (Tg_snoc_mul _ _ o n Ho HT) as [r' H]. eexists. apply Eg_t. exact H.
  - destruct (Tg_snoc_mul _ _ o n Ho HT) as [r' H]. eexists.
    rewrite <- app_assoc. cbn [app]. apply Eg_add; eassumption.
Qed.

Lemma Eg_snoc ts r o n : Eg ts r -> exists r', Eg (ts ++ [TOp o; TNum n]) r'.
Proof.
  intros HE. destruct o.
  - now apply (Eg_snoc_pow _ _ n HE).
  - apply (Eg_snoc_mul ts r Mul n); auto.
  - apply (Eg_snoc_mul ts r Div n); auto.
  - eexists. apply Eg_add; [exact HE | apply Tg_f, Fg_num | auto].
  - eexists. apply Eg_add; [exact HE | apply Tg_f, Fg_num | auto].
Qed.

Lemma Eg_total_from k : forall r pre rp, (length r <= k)%nat -> Eg pre rp ->
  alternates false r -> exists r', Eg (pre ++ r) r'.
Proof.
  induction k as [|k IH]; intros r pre rp Hl HE Ha.
  - destruct r; [|cbn [length] in Hl; lia]. rewrite app_nil_r. eauto.
  - destruct r as [|[n|o] r1]; [rewrite app_nil_r; eauto | destruct Ha |].
    cbn [alternates] in Ha. destruct r1 as [|[n|o'] r2]; [destruct Ha | | destruct Ha].
    cbn [alternates] in Ha.
    destruct (Eg_snoc _ _ o n HE) as [r1 H1].
    destruct (IH r2 _ _ ltac:(cbn [length] in Hl; lia) H1 Ha) as [r' H'].
    exists r'. rewrite <- app_assoc in H'. exact H'.
Qed.

Lemma Eg_total ts : alternates true ts -> exists r, Eg ts r.
Proof.
  destruct ts as [|[n|o] r]; cbn [alternates]; intros Ha; try destruct Ha.
  apply (Eg_total_from (length r) r [TNum n] (Some n)); [lia | apply Eg_t, Tg_f, Fg_num | exact Ha].
Qed.

(* ---- stack-depth invariant: a value can only come out of an alternating token list ---- *)
Lemma apply_len o vs vs' : apply o vs = Ok vs' -> length vs = S (length vs').
Proof.
  destruct vs as [|y [|x vs]]; try discriminate.
  rewrite apply_aply. destruct (aply o x y); [|discriminate].
  intros H. injection H as <-. reflexivity.
Qed.

Lemma pop_while_len o : forall os vs vs' os', pop_while o vs os = Ok (vs', os') ->
  (length vs + length os' = length vs' + length os)%nat.
Proof.
  induction os as [|top os IH]; intros vs vs' os' H; cbn [pop_while] in H.
  - injection H as <- <-. reflexivity.
  - destruct ((prec top <? prec o)%N || ((prec top =? prec o)%N && rassoc o)).
    + injection H as <- <-. reflexivity.
    + destruct (apply top vs) as [vs1| | |] eqn:Ea; try discriminate.
      cbn [obind] in H. apply IH in H. apply apply_len in Ea. cbn [length]. lia.
Qed.

Lemma result_len : forall os vs v, result vs os = Ok v -> length vs = S (length os).
Proof.
  induction os as [|top os IH]; intros vs v H; cbn [result] in H.
  - destruct vs as [|a [|b vs]]; try discriminate. reflexivity.
  - destruct (apply top vs) as [vs1| | |] eqn:Ea; try discriminate.
    cbn [obind] in H. apply IH in H. apply apply_len in Ea. cbn [length]. lia.
Qed.

Lemma run_ok_alt : forall ts operand vs os v, run ts operand vs os = Ok v ->
  (length vs + (if operand then 1 else 0) = S (length os))%nat -> alternates operand ts.
Proof.
  induction ts as [|[n|o] ts IH]; intros operand vs os v H Hl.
  - cbn [run] in H. apply result_len in H. destruct operand; [lia | exact I].
  - cbn [run] in H. destruct operand; [|discriminate]. cbn [alternates].
    apply (IH _ _ _ _ H). cbn [length]. lia.
  - cbn [run] in H. destruct operand; [discriminate|]. cbn [alternates].
    unfold push_operator in H.
    destruct (pop_while o vs os) as [[vs' os']| | |] eqn:Ep; try discriminate.
    cbn [obind fst snd] in H. apply pop_while_len in Ep.
    apply (IH _ _ _ _ H). cbn [length]. lia.
Qed.

(* soundness: a value returned by the yard is the value the grammar assigns *)
Theorem yard_sound ts v : yard ts = Ok v -> E ts v.
Proof.
  intros H. pose proof (run_ok_alt _ _ _ _ _ H eq_refl) as Ha.
  destruct (Eg_total _ Ha) as [r Hr].
  pose proof (yard_complete_gen _ _ Hr) as Hc. rewrite H in Hc.
  destruct r as [v'|]; [|discriminate]. injection Hc as ->.
  now apply (Eg_E _ _ Hr).
Qed.

Theorem E_unique ts v v' : E ts v -> E ts v' -> v = v'.
Proof.
  intros H H'. apply yard_complete in H. apply yard_complete in H'.
  rewrite H in H'. now injection H'.
Qed.

Lemma E_alternates ts v : E ts v -> alternates true ts.
Proof. intros H. apply yard_complete in H. exact (run_ok_alt _ _ _ _ _ H eq_refl). Qed.

(* on an alternating list the only thing that can go wrong is a division by zero *)
Theorem yard_divzero ts : alternates true ts -> (forall v, ~ E ts v) -> yard ts = Err divzero.
Proof.
  intros Ha Hn. destruct (Eg_total _ Ha) as [r Hr].
  rewrite (yard_complete_gen _ _ Hr). destruct r as [v|]; [|reflexivity].
  exfalso. apply (Hn v). now apply (Eg_E _ _ Hr).
Qed.

(* ---- the model never panics and never runs out of fuel at token level ---- *)
Definition settled {A} (x : outcome A) : Prop :=
  match x with Ok _ | Err _ => True | _ => False end.

Lemma apply_settled o vs : settled (apply o vs).
Proof.
  destruct vs as [|y [|x vs]]; try exact I.
  rewrite apply_aply. destruct (aply o x y); exact I.
Qed.

Lemma pop_while_settled o : forall os vs, settled (pop_while o vs os).
Proof.
  induction os as [|top os IH]; intros vs; cbn [pop_while]; [exact I|].
  destruct ((prec top <? prec o)%N || ((prec top =? prec o)%N && rassoc o)); [exact I|].
  pose proof (apply_settled top vs) as Hs.
  destruct (apply top vs); cbn [obind]; try exact Hs. apply IH.
Qed.

Lemma push_settled o vs os : settled (push_operator o vs os).
Proof.
  unfold push_operator. pose proof (pop_while_settled o os vs) as Hs.
  destruct (pop_while o vs os); cbn [obind]; exact Hs.
Qed.

Lemma result_settled : forall os vs, settled (result vs os).
Proof.
  induction os as [|top os IH]; intros vs; cbn [result].
  - destruct vs as [|a [|b vs]]; exact I.
  - pose proof (apply_settled top vs) as Hs.
    destruct (apply top vs); cbn [obind]; try exact Hs. apply IH.
Qed.

Lemma run_settled : forall ts operand vs os, settled (run ts operand vs os).
Proof.
  induction ts as [|[n|o] ts IH]; intros operand vs os; cbn [run].
  - apply result_settled.
  - destruct operand; [apply IH | exact I].
  - destruct operand; [exact I|].
    pose proof (push_settled o vs os) as Hs.
    destruct (push_operator o vs os); cbn [obind]; try exact Hs. apply IH.
Qed.


(* ====================================================================================== *)
(* 3. Literals: number() and SetString(s, 0) against the literal classes                   *)
(* ====================================================================================== *)

(* character classes: model booleans against specification predicates *)
Lemma is_decimal_iff c : is_decimal c = true <-> dec_digit c.
Proof. unfold is_decimal, dec_digit. lia. Qed.
Lemma is_hex_iff c : is_hex c = true <-> hex_digit c.
Proof. unfold is_hex, is_decimal, hex_digit, dec_digit. lia. Qed.
Lemma is_binary_iff c : is_binary c = true <-> bin_digit c.
Proof. unfold is_binary, bin_digit. lia. Qed.

Lemma Forall_iff {A} (P Q : A -> Prop) l : (forall x, P x <-> Q x) -> Forall P l <-> Forall Q l.
Proof.
  intros H. split; intros HF; (eapply Forall_impl; [|exact HF]); intros x; apply H.
Qed.

(* a byte that SetString's digit loop takes as a digit below b1, with its specified value *)
Definition good (b1 : N) (c : N) : Prop :=
  c <> 95%N /\ exists d, digit_value c = Some d /\ (d < b1)%N /\ Z.of_N d = digit_val c.

Lemma good_dec c : dec_digit c -> good 10 c.
Proof.
  unfold dec_digit, good, digit_value, digit_val. intros H.
  split; [lia|]. exists (c - 48)%N.
  replace ((48 <=? c)%N && (c <=? 57)%N) with true by lia.
  replace (c <=? 57)%N with true by lia.
  repeat split; lia.
Qed.

Lemma good_oct c : oct_digit c -> good 8 c.
Proof.
  unfold oct_digit, good, digit_value, digit_val. intros H.
  split; [lia|]. exists (c - 48)%N.
  replace ((48 <=? c)%N && (c <=? 57)%N) with true by lia.
  replace (c <=? 57)%N with true by lia.
  repeat split; lia.
Qed.

Lemma good_bin c : bin_digit c -> good 2 c.
Proof.
  unfold bin_digit, good. intros [-> | ->]; (split; [lia|]).
  - exists 0%N. repeat split; lia.
  - exists 1%N. repeat split; lia.
Qed.

Lemma good_hex c : hex_digit c -> good 16 c.
Proof.
  unfold hex_digit, dec_digit, good, digit_value, digit_val. intros [H | H].
  - split; [lia|]. exists (c - 48)%N.
    replace ((48 <=? c)%N && (c <=? 57)%N) with true by lia.
    replace (c <=? 57)%N with true by lia.
    repeat split; lia.
  - split; [lia|]. exists (c - 97 + 10)%N.
    replace ((48 <=? c)%N && (c <=? 57)%N) with false by lia.
    replace ((97 <=? c)%N && (c <=? 122)%N) with true by lia.
    replace (c <=? 57)%N with false by lia.
    repeat split; lia.
Qed.

Lemma scan_digits_good b1 base : Z.of_N b1 = base ->
  forall ds acc count prev inval, Forall (good b1) ds ->
  exists acc',
    scan_digits b1 ds acc count prev inval =
      (acc', (count + N.of_nat (length ds))%N, match ds with [] => prev | _ => PDigit end, inval, [])
    /\ Z.of_N acc' = value_from base (Z.of_N acc) ds.
Proof.
  intros Hb. induction ds as [|ch r IH]; intros acc count prev inval HF.
  - exists acc. cbn [scan_digits length value_from]. split; [|reflexivity].
    replace (count + N.of_nat 0)%N with count by lia. reflexivity.
  - inversion HF as [|? ? [Hu [d [Hd [Hlt Hv]]]] HF']; subst.
    cbn [scan_digits]. replace (ch =? 95)%N with false by lia. rewrite Hd.
    replace (d <? b1)%N with true by lia.
    destruct (IH (acc * b1 + d)%N (count + 1)%N PDigit inval HF') as [acc' [He Ha]].
    exists acc'. rewrite He. split.
    + assert (Hc : (count + 1 + N.of_nat (length r) = count + N.of_nat (length (ch :: r)))%N)
        by (cbn [length]; lia).
      rewrite Hc. destruct r; reflexivity.
    + rewrite Ha. cbn [value_from]. f_equal. lia.
Qed.

(* if the digit loop consumed everything, every byte was a separator or a digit below b1 *)
Lemma scan_digits_nil_inv b1 : forall ds acc count prev inval acc' count' prev' inval',
  scan_digits b1 ds acc count prev inval = (acc', count', prev', inval', []) ->
  Forall (fun c => c = 95%N \/ exists d, digit_value c = Some d /\ (d < b1)%N) ds.
Proof.
  induction ds as [|ch r IH]; intros acc count prev inval acc' count' prev' inval' H.
  - constructor.
  - cbn [scan_digits] in H. destruct (ch =? 95)%N eqn:Eu.
    + constructor; [left; lia | eapply IH; exact H].
    + destruct (digit_value ch) as [d|] eqn:Ed; [|discriminate].
      destruct (d <? b1)%N eqn:El; [|discriminate].
      constructor; [right; exists d; split; [exact Ed | lia] | eapply IH; exact H].
Qed.

(* the tail of nat.scan after the digit loop *)
Definition scan_finish (prefix : pfx) (r : N * N * prevk * bool * list N) : option (N * list N) :=
  let '(acc, count, prev, inval, rest) := r in
  if inval || is_psep prev then None
  else if (count =? 0)%N then (if is_pfxzero prefix then Some (0%N, rest) else None)
  else Some (acc, rest).

Lemma nat_scan0_bin ds :
  nat_scan0 (48 :: 98 :: ds)%N = scan_finish PfxLetter (scan_digits 2 ds 0 0 PDigit false).
Proof. reflexivity. Qed.

Lemma nat_scan0_hex ds :
  nat_scan0 (48 :: 120 :: ds)%N = scan_finish PfxLetter (scan_digits 16 ds 0 0 PDigit false).
Proof. reflexivity. Qed.

Lemma nat_scan0_zero d ds : dec_digit d ->
  nat_scan0 (48 :: d :: ds)%N = scan_finish PfxZero (scan_digits 8 (d :: ds) 0 0 PDigit false).
Proof.
  unfold dec_digit. intros H. unfold nat_scan0.
  change (48 =? 48)%N with true. cbv iota.
  replace ((d =? 98)%N || (d =? 66)%N) with false by lia.
  replace ((d =? 111)%N || (d =? 79)%N) with false by lia.
  replace ((d =? 120)%N || (d =? 88)%N) with false by lia.
  reflexivity.
Qed.

Lemma nat_scan0_nz d ds : (d =? 48)%N = false ->
  nat_scan0 (d :: ds) = scan_finish NoPfx (scan_digits 10 (d :: ds) 0 0 POther false).
Proof. intros H. unfold nat_scan0. rewrite H. reflexivity. Qed.

(* all digits good: the scan succeeds with the specified value *)
Lemma finish_good prefix b1 base d ds prev : Z.of_N b1 = base -> Forall (good b1) (d :: ds) ->
  exists a, scan_finish prefix (scan_digits b1 (d :: ds) 0 0 prev false) = Some (a, [])
            /\ Z.of_N a = value_of base (d :: ds).
Proof.
  intros Hb HF.
  destruct (scan_digits_good b1 base Hb (d :: ds) 0%N 0%N prev false HF) as [a [He Ha]].
  exists a. rewrite He. split; [|exact Ha].
  unfold scan_finish. cbn [orb is_psep].
  replace (0 + N.of_nat (length (d :: ds)) =? 0)%N with false by (cbn [length]; lia).
  reflexivity.
Qed.

(* SetString's mantissa scan on a literal of the (extended) classes *)
Lemma nat_scan0_lit u v : unsigned_lit true u v ->
  exists a, nat_scan0 u = Some (a, []) /\ Z.of_N a = v.
Proof.
  intros H. destruct H as [| d ds Hd Hnz HF | d ds HF | d ds HF | d ds _ HF].
  - exists 0%N. split; reflexivity.
  - rewrite nat_scan0_nz by lia.
    apply (finish_good NoPfx 10 10 d ds POther eq_refl).
    constructor; [now apply good_dec | eapply Forall_impl; [|exact HF]; apply good_dec].
  - rewrite nat_scan0_hex.
    apply (finish_good PfxLetter 16 16 d ds PDigit eq_refl).
    eapply Forall_impl; [|exact HF]. apply good_hex.
  - rewrite nat_scan0_bin.
    apply (finish_good PfxLetter 2 2 d ds PDigit eq_refl).
    eapply Forall_impl; [|exact HF]. apply good_bin.
  - rewrite nat_scan0_zero.
    + apply (finish_good PfxZero 8 8 d ds PDigit eq_refl).
      eapply Forall_impl; [|exact HF]. apply good_oct.
    + inversion HF as [|? ? Ho _]; subst. unfold oct_digit in Ho. unfold dec_digit. lia.
Qed.

Lemma unsigned_lit_head oct u v : unsigned_lit oct u v -> exists c u', u = c :: u' /\ dec_digit c.
Proof.
  unfold dec_digit. intros H.
  destruct H as [| d ds Hd Hnz HF | d ds HF | d ds HF | d ds _ HF]; eexists; eexists;
    (split; [reflexivity|]); try lia. exact Hd.
Qed.

Lemma unsigned_lit_mono u v : unsigned_lit false u v -> unsigned_lit true u v.
Proof.
  intros H. destruct H as [| d ds Hd Hnz HF | d ds HF | d ds HF | d ds Ho HF];
    [constructor | now constructor | now constructor | now constructor | discriminate].
Qed.

Lemma literal_mono t v : literal false t v -> literal true t v.
Proof. intros [t' v' H | t' v' H]; constructor; now apply unsigned_lit_mono. Qed.

Lemma set_string0_lit t v : literal true t v -> set_string0 t = Some v.
Proof.
  intros [u w H | u w H].
  - destruct (nat_scan0_lit _ _ H) as [a [Hs Ha]].
    destruct (unsigned_lit_head _ _ _ H) as [c [u' [-> Hc]]]. unfold dec_digit in Hc.
    unfold set_string0. replace (c =? 45)%N with false by lia.
    replace (c =? 43)%N with false by lia. cbn [orb]. rewrite Hs. now rewrite Ha.
  - destruct (nat_scan0_lit _ _ H) as [a [Hs Ha]].
    unfold set_string0. change (45 =? 45)%N with true. cbn [orb]. rewrite Hs. now rewrite Ha.
Qed.

(* ---- the scanning part of number(), after the sign ---- *)
Definition scan_unsigned (b1 : list N) : list N * list N :=
  match b1 with
  | c0 :: c1 :: r =>
      if (c0 =? 48)%N && (c1 =? 98)%N then
        let '(ds, rest) := span is_binary r in (c0 :: c1 :: ds, rest)
      else if (c0 =? 48)%N && (c1 =? 120)%N then
        let '(ds, rest) := span is_hex r in (c0 :: c1 :: ds, rest)
      else span is_decimal b1
  | _ => span is_decimal b1
  end.

Definition number_result (o : option Z) (rest : list N) : outcome (Z * list N) :=
  match o with Some x => Ok (x, rest) | None => Err $"number" end.

Lemma number_neg r :
  number (45 :: r)%N = number_result (set_string0 (45 :: fst (scan_unsigned r))%N) (snd (scan_unsigned r)).
Proof.
  unfold number, scan_unsigned. change (45 =? 45)%N with true. cbv iota.
  destruct r as [|c0 [|c1 r]].
  - reflexivity.
  - destruct (span is_decimal [c0]) as [ds rest]. reflexivity.
  - destruct ((c0 =? 48)%N && (c1 =? 98)%N).
    + destruct (span is_binary r) as [ds rest]. reflexivity.
    + destruct ((c0 =? 48)%N && (c1 =? 120)%N).
      * destruct (span is_hex r) as [ds rest]. reflexivity.
      * destruct (span is_decimal (c0 :: c1 :: r)) as [ds rest]. reflexivity.
Qed.

Lemma number_pos b : match b with c :: _ => (c =? 45)%N = false | [] => True end ->
  number b = number_result (set_string0 (fst (scan_unsigned b))) (snd (scan_unsigned b)).
Proof.
  intros H. unfold number, scan_unsigned.
  destruct b as [|c0 [|c1 r]].
  - reflexivity.
  - rewrite H. destruct (span is_decimal [c0]) as [ds rest]. reflexivity.
  - rewrite H. destruct ((c0 =? 48)%N && (c1 =? 98)%N).
    + destruct (span is_binary r) as [ds rest]. reflexivity.
    + destruct ((c0 =? 48)%N && (c1 =? 120)%N).
      * destruct (span is_hex r) as [ds rest]. reflexivity.
      * destruct (span is_decimal (c0 :: c1 :: r)) as [ds rest]. reflexivity.
Qed.

Lemma span_spec p : forall l a b, span p l = (a, b) ->
  l = a ++ b /\ Forall (fun c => p c = true) a.
Proof.
  induction l as [|c r IH]; intros a b H; cbn [span] in H.
  - injection H as <- <-. split; [reflexivity | constructor].
  - destruct (p c) eqn:Ep.
    + destruct (span p r) as [a' b'] eqn:Es. injection H as <- <-.
      destruct (IH _ _ eq_refl) as [-> HF]. split; [reflexivity | now constructor].
    + injection H as <- <-. split; [reflexivity | constructor].
Qed.

Lemma span_app p a b : Forall (fun c => p c = true) a ->
  match b with [] => True | c :: _ => p c = false end -> span p (a ++ b) = (a, b).
Proof.
  intros HF Hb. induction HF as [|c a Hc HF IH]; cbn [app span].
  - destruct b as [|c b]; [reflexivity|]. cbn [span]. now rewrite Hb.
  - rewrite Hc, IH. reflexivity.
Qed.

Lemma delimited_cases c s : delimited (c :: s) ->
  (c = 32 \/ c = 94 \/ c = 42 \/ c = 47 \/ c = 43 \/ c = 45)%N.
Proof. cbn [delimited]. intros [-> | [o ->]]; [|destruct o]; cbn [op_char]; lia. Qed.

Lemma delimited_not_hex c s : delimited (c :: s) -> is_hex c = false.
Proof.
  intros H. apply delimited_cases in H. unfold is_hex, is_decimal. lia.
Qed.

Lemma delimited_stops (p : N -> bool) b : (forall c, p c = true -> is_hex c = true) ->
  delimited b -> match b with [] => True | c :: _ => p c = false end.
Proof.
  intros Hp Hd. destruct b as [|c b]; [exact I|].
  apply delimited_not_hex in Hd. destruct (p c) eqn:E; [|reflexivity].
  apply Hp in E. congruence.
Qed.

Lemma dec_is_hex c : is_decimal c = true -> is_hex c = true.
Proof. unfold is_hex. intros ->. reflexivity. Qed.
Lemma bin_is_hex c : is_binary c = true -> is_hex c = true.
Proof. unfold is_binary, is_hex, is_decimal. lia. Qed.

Lemma scan_unsigned_lit u v rest : unsigned_lit true u v -> delimited rest ->
  scan_unsigned (u ++ rest) = (u, rest).
Proof.
  intros H Hd.
  pose proof (delimited_stops is_decimal rest dec_is_hex Hd) as Sd.
  pose proof (delimited_stops is_binary rest bin_is_hex Hd) as Sb.
  pose proof (delimited_stops is_hex rest (fun c H => H) Hd) as Sh.
  destruct H as [| d ds Hdd Hnz HF | d ds HF | d ds HF | d ds _ HF].
  - cbn [app]. unfold scan_unsigned. destruct rest as [|c1 r].
    + reflexivity.
    + change (48 =? 48)%N with true. cbn [andb].
      apply delimited_cases in Hd.
      replace (c1 =? 98)%N with false by lia. replace (c1 =? 120)%N with false by lia.
      cbn [span]. change (is_decimal 48) with true. cbv iota. cbn [span]. now rewrite Sd.
  - assert (Hall : Forall (fun c => is_decimal c = true) (d :: ds)).
    { constructor; [now apply is_decimal_iff|].
      eapply Forall_impl; [|exact HF]. intros c. apply is_decimal_iff. }
    unfold scan_unsigned. cbn [app]. destruct (ds ++ rest) as [|c1 r] eqn:Er.
    + rewrite <- Er. apply (span_app is_decimal (d :: ds) rest Hall Sd).
    + replace (d =? 48)%N with false by lia. cbn [andb].
      rewrite <- Er. apply (span_app is_decimal (d :: ds) rest Hall Sd).
  - unfold scan_unsigned. cbn [app].
    change ((48 =? 48)%N && (120 =? 98)%N) with false. change ((48 =? 48)%N && (120 =? 120)%N) with true.
    cbv iota.
    change (d :: ds ++ rest) with ((d :: ds) ++ rest).
    rewrite (span_app is_hex (d :: ds) rest); [reflexivity | | exact Sh].
    eapply Forall_impl; [|exact HF]. intros c. apply is_hex_iff.
  - unfold scan_unsigned. cbn [app].
    change ((48 =? 48)%N && (98 =? 98)%N) with true. cbv iota.
    change (d :: ds ++ rest) with ((d :: ds) ++ rest).
    rewrite (span_app is_binary (d :: ds) rest); [reflexivity | | exact Sb].
    eapply Forall_impl; [|exact HF]. intros c. apply is_binary_iff.
  - assert (Hall : Forall (fun c => is_decimal c = true) (48 :: d :: ds)%N).
    { constructor; [reflexivity|]. eapply Forall_impl; [|exact HF].
      intros c Hc. apply is_decimal_iff. unfold oct_digit in Hc. unfold dec_digit. lia. }
    inversion HF as [|? ? Ho _]; subst. unfold oct_digit in Ho.
    unfold scan_unsigned. cbn [app].
    change (48 =? 48)%N with true. cbn [andb].
    replace (d =? 98)%N with false by lia. replace (d =? 120)%N with false by lia.
    apply (span_app is_decimal (48 :: d :: ds)%N rest Hall Sd).
Qed.

(* number() on a literal followed by a delimiter: the literal's value and the rest *)
Theorem number_complete t v rest : literal true t v -> delimited rest ->
  number (t ++ rest) = Ok (v, rest).
Proof.
  intros H Hd. pose proof (set_string0_lit _ _ H) as Hs.
  destruct H as [u w H | u w H].
  - destruct (unsigned_lit_head _ _ _ H) as [c [u' [-> Hc]]]. unfold dec_digit in Hc.
    rewrite number_pos by (cbn [app]; lia).
    rewrite (scan_unsigned_lit _ _ _ H Hd). cbn [fst snd]. rewrite Hs. reflexivity.
  - cbn [app]. rewrite number_neg.
    rewrite (scan_unsigned_lit _ _ _ H Hd). cbn [fst snd]. rewrite Hs. reflexivity.
Qed.

(* ---- converse: whatever number() accepts is a literal of the extended classes ---- *)
Definition shape (u : list N) : Prop :=
  (exists ds, u = (48 :: 98 :: ds)%N /\ Forall bin_digit ds) \/
  (exists ds, u = (48 :: 120 :: ds)%N /\ Forall hex_digit ds) \/
  Forall dec_digit u.

Lemma scan_unsigned_spec b1 u rest : scan_unsigned b1 = (u, rest) -> b1 = u ++ rest /\ shape u.
Proof.
  assert (Hdec : forall l, span is_decimal l = (u, rest) -> l = u ++ rest /\ shape u).
  { intros l H. apply span_spec in H. destruct H as [-> HF]. split; [reflexivity|].
    right; right. eapply Forall_impl; [|exact HF]. intros c. apply is_decimal_iff. }
  unfold scan_unsigned. destruct b1 as [|c0 [|c1 r]]; try apply Hdec.
  destruct ((c0 =? 48)%N && (c1 =? 98)%N) eqn:Eb.
  - destruct (span is_binary r) as [ds rest'] eqn:Es. intros H. injection H as <- <-.
    apply span_spec in Es. destruct Es as [-> HF].
    assert (c0 = 48%N) as -> by lia. assert (c1 = 98%N) as -> by lia.
    split; [reflexivity|]. left. exists ds. split; [reflexivity|].
    eapply Forall_impl; [|exact HF]. intros c. apply is_binary_iff.
  - destruct ((c0 =? 48)%N && (c1 =? 120)%N) eqn:Ex; [|apply Hdec].
    destruct (span is_hex r) as [ds rest'] eqn:Es. intros H. injection H as <- <-.
    apply span_spec in Es. destruct Es as [-> HF].
    assert (c0 = 48%N) as -> by lia. assert (c1 = 120%N) as -> by lia.
    split; [reflexivity|]. right; left. exists ds. split; [reflexivity|].
    eapply Forall_impl; [|exact HF]. intros c. apply is_hex_iff.
Qed.

Lemma scan_finish_rest prefix acc count prev inval rest a :
  scan_finish prefix (acc, count, prev, inval, rest) = Some (a, []) -> rest = [].
Proof.
  unfold scan_finish. destruct (inval || is_psep prev); [discriminate|].
  destruct (count =? 0)%N.
  - destruct (is_pfxzero prefix); [|discriminate]. intros H. now injection H.
  - intros H. now injection H.
Qed.

Lemma dec_below8_oct c : dec_digit c ->
  (c = 95%N \/ exists d, digit_value c = Some d /\ (d < 8)%N) -> oct_digit c.
Proof.
  unfold dec_digit, oct_digit, digit_value. intros Hc [Hu | [d [Hd Hl]]]; [lia|].
  replace ((48 <=? c)%N && (c <=? 57)%N) with true in Hd by lia.
  injection Hd as <-. lia.
Qed.

Lemma Forall_both {A} (P Q R : A -> Prop) l :
  (forall x, P x -> Q x -> R x) -> Forall P l -> Forall Q l -> Forall R l.
Proof.
  intros H HP. induction HP as [|x l Hx HP IH]; intros HQ; [constructor|].
  inversion HQ; subst. constructor; auto.
Qed.

Lemma nat_scan0_shape u a : shape u -> nat_scan0 u = Some (a, []) -> unsigned_lit true u (Z.of_N a).
Proof.
  intros [[ds [-> HF]] | [[ds [-> HF]] | HF]] H.
  - rewrite nat_scan0_bin in H. destruct ds as [|d ds]; [discriminate|].
    destruct (finish_good PfxLetter 2 2 d ds PDigit eq_refl) as [a' [He Ha]].
    { eapply Forall_impl; [|exact HF]. apply good_bin. }
    rewrite He in H. injection H as <-. rewrite Ha. now apply lit_bin.
  - rewrite nat_scan0_hex in H. destruct ds as [|d ds]; [discriminate|].
    destruct (finish_good PfxLetter 16 16 d ds PDigit eq_refl) as [a' [He Ha]].
    { eapply Forall_impl; [|exact HF]. apply good_hex. }
    rewrite He in H. injection H as <-. rewrite Ha. now apply lit_hex.
  - destruct u as [|d ds]; [discriminate|].
    inversion HF as [|? ? Hd HF']; subst.
    destruct (d =? 48)%N eqn:E0.
    + assert (d = 48%N) as -> by lia. destruct ds as [|d' ds'].
      * injection H as <-. apply lit_zero.
      * inversion HF' as [|? ? Hd' _]; subst.
        rewrite (nat_scan0_zero d' ds' Hd') in H.
        destruct (scan_digits 8 (d' :: ds') 0 0 PDigit false) as [[[[acc count] prev] inval] rest] eqn:Es.
        pose proof (scan_finish_rest _ _ _ _ _ _ _ H) as ->.
        pose proof (scan_digits_nil_inv _ _ _ _ _ _ _ _ _ _ Es) as Hn.
        assert (Ho : Forall oct_digit (d' :: ds'))
          by (apply (Forall_both _ _ _ _ dec_below8_oct HF' Hn)).
        destruct (finish_good PfxZero 8 8 d' ds' PDigit eq_refl) as [a' [He Ha]].
        { eapply Forall_impl; [|exact Ho]. apply good_oct. }
        rewrite Es in He. rewrite He in H. injection H as <-. rewrite Ha. now apply lit_oct.
    + rewrite nat_scan0_nz in H by exact E0.
      destruct (finish_good NoPfx 10 10 d ds POther eq_refl) as [a' [He Ha]].
      { eapply Forall_impl; [|exact HF]. apply good_dec. }
      rewrite He in H. injection H as <-. rewrite Ha. apply lit_dec; [exact Hd | lia | exact HF'].
Qed.

Lemma shape_head u : shape u -> match u with [] => True | c :: _ => dec_digit c end.
Proof.
  intros [[ds [-> _]] | [[ds [-> _]] | HF]]; try (unfold dec_digit; lia).
  destruct u; [exact I|]. now inversion HF.
Qed.

Lemma set_string0_pos u v : shape u -> set_string0 u = Some v -> unsigned_lit true u v.
Proof.
  intros Hs H. pose proof (shape_head _ Hs) as Hh.
  destruct u as [|c r]; [discriminate|]. unfold dec_digit in Hh.
  unfold set_string0 in H.
  replace (c =? 45)%N with false in H by lia. replace (c =? 43)%N with false in H by lia.
  cbn [orb] in H.
  destruct (nat_scan0 (c :: r)) as [[a [|x rest]]|] eqn:En; try discriminate.
  injection H as <-. now apply nat_scan0_shape.
Qed.

Lemma set_string0_neg u v : shape u -> set_string0 (45 :: u)%N = Some v ->
  exists w, unsigned_lit true u w /\ v = - w.
Proof.
  intros Hs H. unfold set_string0 in H. change (45 =? 45)%N with true in H. cbn [orb] in H.
  destruct (nat_scan0 u) as [[a [|x rest]]|] eqn:En; try discriminate.
  injection H as <-. exists (Z.of_N a). split; [now apply nat_scan0_shape | reflexivity].
Qed.

Theorem number_sound b v rest : number b = Ok (v, rest) ->
  exists t, b = t ++ rest /\ literal true t v.
Proof.
  intros H. destruct b as [|c r]; [discriminate|].
  destruct (c =? 45)%N eqn:Ec.
  - assert (c = 45%N) as -> by lia. rewrite number_neg in H.
    destruct (scan_unsigned r) as [u rest'] eqn:Eu. cbn [fst snd] in H.
    apply scan_unsigned_spec in Eu. destruct Eu as [-> Hs].
    destruct (set_string0 (45 :: u)%N) as [x|] eqn:Ex; [|discriminate].
    cbn [number_result] in H. injection H as <- <-.
    destruct (set_string0_neg _ _ Hs Ex) as [w [Hw ->]].
    exists (45 :: u)%N. split; [reflexivity | now apply lit_neg].
  - rewrite number_pos in H by exact Ec.
    destruct (scan_unsigned (c :: r)) as [u rest'] eqn:Eu. cbn [fst snd] in H.
    apply scan_unsigned_spec in Eu. destruct Eu as [Eb Hs].
    destruct (set_string0 u) as [x|] eqn:Ex; [|discriminate].
    cbn [number_result] in H. injection H as <- <-.
    exists u. split; [exact Eb | apply lit_pos; now apply set_string0_pos].
Qed.

Lemma literal_nonempty oct t v : literal oct t v -> t <> [].
Proof. intros [u w H | u w H]; [|discriminate]. destruct H; discriminate. Qed.

Lemma number_shrinks b v rest : number b = Ok (v, rest) -> (length rest < length b)%nat.
Proof.
  intros H. destruct (number_sound _ _ _ H) as [t [-> Hl]].
  apply literal_nonempty in Hl. rewrite app_length. destruct t; [congruence | cbn [length]; lia].
Qed.

Lemma number_settled b : settled (number b).
Proof. unfold number.
  destruct (match b with c :: r => if (c =? 45)%N then ([c], r) else ([], b) | [] => ([], b) end) as [sign b1].
  destruct (match b1 with
    | c0 :: c1 :: r =>
        if (c0 =? 48)%N && (c1 =? 98)%N then ([c0; c1], is_binary, r)
        else if (c0 =? 48)%N && (c1 =? 120)%N then ([c0; c1], is_hex, r)
        else ([], is_decimal, b1)
    | _ => ([], is_decimal, b1)
    end) as [[pre isdigit] b2].
  destruct (span isdigit b2) as [ds rest].
  destruct (set_string0 (sign ++ pre ++ ds)); exact I.
Qed.

(* ====================================================================================== *)
(* 4. Byte level: Eval = lexing by number() followed by the yard                           *)
(* ====================================================================================== *)

(* the loop of Eval with the yard taken out: only the tokens *)
Fixpoint lex_loop (fuel : nat) (b : list N) (operand : bool) : outcome (list tok) :=
  match fuel with
  | O => OutOfFuel
  | S f =>
      match b with
      | [] => Ok []
      | c :: r =>
          if skip c then lex_loop f r operand
          else if operand then
            obind (number b) (fun xr =>
              obind (lex_loop f (snd xr) false) (fun ts => Ok (TNum (fst xr) :: ts)))
          else match op_of_byte c with
               | None => Err $"operator"
               | Some op => obind (lex_loop f r true) (fun ts => Ok (TOp op :: ts))
               end
      end
  end.

Definition lex (s : list N) : outcome (list tok) := lex_loop (S (length s)) s true.

Lemma lex_no_panic : forall fuel b operand cls, lex_loop fuel b operand <> Panic cls.
Proof.
  induction fuel as [|f IH]; intros b operand cls; cbn [lex_loop]; [discriminate|].
  destruct b as [|c r]; [discriminate|].
  destruct (skip c); [apply IH|].
  destruct operand.
  - pose proof (number_settled (c :: r)) as Hs.
    destruct (number (c :: r)) as [[x rest]| | |]; cbn [obind fst snd]; try discriminate; try destruct Hs.
    pose proof (IH rest false) as Hp.
    destruct (lex_loop f rest false); cbn [obind]; try discriminate. intros H. eapply Hp. reflexivity.
  - destruct (op_of_byte c) as [op|]; [|discriminate].
    pose proof (IH r true) as Hp.
    destruct (lex_loop f r true); cbn [obind]; try discriminate. intros H. eapply Hp. reflexivity.
Qed.

Lemma lex_fuel : forall fuel b operand, (length b < fuel)%nat -> lex_loop fuel b operand <> OutOfFuel.
Proof.
  induction fuel as [|f IH]; intros b operand Hl; [lia|]. cbn [lex_loop].
  destruct b as [|c r]; [discriminate|]. cbn [length] in Hl.
  destruct (skip c); [apply IH; lia|].
  destruct operand.
  - pose proof (number_settled (c :: r)) as Hs.
    destruct (number (c :: r)) as [[x rest]| | |] eqn:En; cbn [obind fst snd]; try discriminate; try destruct Hs.
    apply number_shrinks in En. cbn [length] in En.
    pose proof (IH rest false ltac:(lia)) as Hp.
    destruct (lex_loop f rest false); cbn [obind]; try discriminate. congruence.
  - destruct (op_of_byte c) as [op|]; [|discriminate].
    pose proof (IH r true ltac:(lia)) as Hp.
    destruct (lex_loop f r true); cbn [obind]; try discriminate. congruence.
Qed.

(* Eval against lexing followed by the token-level yard *)
Lemma eval_lex : forall fuel b operand vs os,
  match lex_loop fuel b operand with
  | Ok ts => eval_loop fuel b operand vs os = run ts operand vs os
  | Err _ => exists c, eval_loop fuel b operand vs os = Err c
  | _ => True
  end.
Proof.
  induction fuel as [|f IH]; intros b operand vs os; [exact I|].
  cbn [lex_loop eval_loop].
  destruct b as [|c r]; [reflexivity|].
  destruct (skip c); [apply IH|].
  destruct operand.
  - pose proof (number_settled (c :: r)) as Hs.
    destruct (number (c :: r)) as [[x rest]| | |]; cbn [obind fst snd]; try destruct Hs.
    + specialize (IH rest false (x :: vs) os).
      destruct (lex_loop f rest false); cbn [obind]; try exact I; exact IH.
    + eexists. reflexivity.
  - destruct (op_of_byte c) as [op|]; [|eexists; reflexivity].
    pose proof (push_settled op vs os) as Hs.
    destruct (push_operator op vs os) as [st| | |] eqn:Ep; try destruct Hs; cbn [obind].
    + specialize (IH r true (fst st) (snd st)).
      destruct (lex_loop f r true); cbn [obind]; try exact I; [|exact IH].
      cbn [run]. rewrite Ep. exact IH.
    + destruct (lex_loop f r true); cbn [obind]; try exact I; [|eexists; reflexivity].
      cbn [run]. rewrite Ep. reflexivity.
Qed.

Lemma op_of_byte_char c o : op_of_byte c = Some o -> c = op_char o.
Proof.
  unfold op_of_byte.
  destruct (c =? 94)%N eqn:E1; [intros H; injection H as <-; cbn [op_char]; lia|].
  destruct (c =? 42)%N eqn:E2; [intros H; injection H as <-; cbn [op_char]; lia|].
  destruct (c =? 47)%N eqn:E3; [intros H; injection H as <-; cbn [op_char]; lia|].
  destruct (c =? 43)%N eqn:E4; [intros H; injection H as <-; cbn [op_char]; lia|].
  destruct (c =? 45)%N eqn:E5; [intros H; injection H as <-; cbn [op_char]; lia|].
  discriminate.
Qed.

Lemma op_of_byte_op_char o : op_of_byte (op_char o) = Some o.
Proof. destruct o; reflexivity. Qed.

Lemma skip_op_char o : skip (op_char o) = false.
Proof. destruct o; reflexivity. Qed.

Lemma lex_false_delimited fuel b ts : lex_loop fuel b false = Ok ts -> delimited b.
Proof.
  destruct fuel as [|f]; [discriminate|]. cbn [lex_loop].
  destruct b as [|c r]; [intros _; exact I|]. cbn [delimited].
  destruct (skip c) eqn:Es; [intros _; left; unfold skip in Es; lia|].
  destruct (op_of_byte c) as [op|] eqn:Eo; [|discriminate].
  intros _. right. exists op. now apply op_of_byte_char.
Qed.

Lemma lex_sound : forall fuel b operand ts, lex_loop fuel b operand = Ok ts -> renders true b ts.
Proof.
  induction fuel as [|f IH]; intros b operand ts H; [discriminate|].
  cbn [lex_loop] in H. destruct b as [|c r]; [injection H as <-; constructor|].
  destruct (skip c) eqn:Es.
  - assert (c = 32%N) as -> by (unfold skip in Es; lia). apply r_space. eapply IH; exact H.
  - destruct operand.
    + destruct (number (c :: r)) as [[x rest]| | |] eqn:En; try discriminate.
      cbn [obind fst snd] in H.
      destruct (lex_loop f rest false) as [ts'| | |] eqn:El; try discriminate.
      cbn [obind] in H. injection H as <-.
      destruct (number_sound _ _ _ En) as [t [-> Hl]].
      apply r_num; [exact Hl | eapply lex_false_delimited; exact El | eapply IH; exact El].
    + destruct (op_of_byte c) as [op|] eqn:Eo; [|discriminate].
      destruct (lex_loop f r true) as [ts'| | |] eqn:El; try discriminate.
      cbn [obind] in H. injection H as <-.
      rewrite (op_of_byte_char _ _ Eo). apply r_op. eapply IH; exact El.
Qed.

Lemma literal_head oct t v : literal oct t v ->
  exists c t', t = c :: t' /\ (c = 45%N \/ dec_digit c).
Proof.
  intros [u w H | u w H].
  - destruct (unsigned_lit_head _ _ _ H) as [c [u' [-> Hc]]]. eauto.
  - eauto.
Qed.

Lemma lex_complete s ts : renders true s ts -> forall operand fuel,
  alternates operand ts -> (length s < fuel)%nat -> lex_loop fuel s operand = Ok ts.
Proof.
  induction 1 as [| s ts HR IH | t v s ts Hl Hd HR IH | o s ts HR IH]; intros operand fuel Ha Hf.
  - destruct fuel; [lia | reflexivity].
  - destruct fuel as [|f]; [lia|]. cbn [lex_loop]. change (skip 32) with true. cbv iota.
    apply IH; [exact Ha | cbn [length] in Hf; lia].
  - destruct operand; [|destruct Ha]. cbn [alternates] in Ha.
    destruct fuel as [|f]; [lia|].
    destruct (literal_head _ _ _ Hl) as [c [t' [-> Hc]]].
    cbn [lex_loop app].
    assert (skip c = false) as -> by (unfold skip, dec_digit in *; lia).
    change (c :: t' ++ s) with ((c :: t') ++ s).
    rewrite (number_complete _ _ _ Hl Hd). cbn [obind fst snd].
    rewrite (IH false f Ha); [reflexivity|].
    rewrite app_length in Hf. cbn [length] in Hf. lia.
  - destruct operand; [destruct Ha|]. cbn [alternates] in Ha.
    destruct fuel as [|f]; [lia|]. cbn [lex_loop].
    rewrite skip_op_char, op_of_byte_op_char.
    rewrite (IH true f Ha); [reflexivity|]. cbn [length] in Hf. lia.
Qed.

Lemma eval_is_yard s ts : lex s = Ok ts -> eval s = yard ts.
Proof.
  intros H. unfold eval, yard.
  pose proof (eval_lex (S (length s)) s true [] []) as He.
  unfold lex in H. rewrite H in He. exact He.
Qed.

Lemma renders_mono s ts : renders false s ts -> renders true s ts.
Proof.
  induction 1; [constructor | now constructor | | now constructor].
  apply r_num; [now apply literal_mono | assumption | assumption].
Qed.

(* ---- main results ---- *)

(* an expression text whose tokens have the value v under the grammar evaluates to v *)
Theorem eval_complete s ts v : renders true s ts -> E ts v -> eval s = Ok v.
Proof.
  intros HR HE.
  assert (Hl : lex s = Ok ts)
    by (apply (lex_complete _ _ HR); [now apply (E_alternates _ v) | lia]).
  rewrite (eval_is_yard _ _ Hl). now apply yard_complete.
Qed.

(* a value is only ever returned for such a text, and it is that value *)
Theorem eval_sound s v : eval s = Ok v -> exists ts, renders true s ts /\ E ts v.
Proof.
  intros H.
  pose proof (eval_lex (S (length s)) s true [] []) as He.
  pose proof (lex_fuel (S (length s)) s true ltac:(lia)) as Hf.
  pose proof (lex_no_panic (S (length s)) s true) as Hp.
  fold (eval s) in He.
  destruct (lex_loop (S (length s)) s true) as [ts|c|c|] eqn:El.
  - exists ts. split; [eapply lex_sound; exact El|].
    apply yard_sound. unfold yard. rewrite <- He. exact H.
  - destruct He as [c' He]. congruence.
  - exfalso. eapply Hp. reflexivity.
  - congruence.
Qed.

(* the evaluator always answers: a value or an error, never a panic, never out of fuel *)
Theorem eval_settled s : settled (eval s).
Proof.
  pose proof (eval_lex (S (length s)) s true [] []) as He.
  pose proof (lex_fuel (S (length s)) s true ltac:(lia)) as Hf.
  pose proof (lex_no_panic (S (length s)) s true) as Hp.
  fold (eval s) in He.
  destruct (lex_loop (S (length s)) s true) as [ts|c|c|] eqn:El.
  - rewrite He. apply run_settled.
  - destruct He as [c' ->]. exact I.
  - exfalso. eapply Hp. reflexivity.
  - congruence.
Qed.

Theorem malformed_err s : (forall ts v, renders true s ts -> ~ E ts v) -> exists c, eval s = Err c.
Proof.
  intros Hn. pose proof (eval_settled s) as Hs.
  destruct (eval s) as [v|c|c|] eqn:Ee; try destruct Hs.
  - destruct (eval_sound _ _ Ee) as [ts [HR HE]]. exfalso. exact (Hn ts v HR HE).
  - eauto.
Qed.

(* a well-formed alternating text without a value is a division by zero, reported as such *)
Theorem eval_divzero s ts : renders true s ts -> alternates true ts -> (forall v, ~ E ts v) ->
  eval s = Err divzero.
Proof.
  intros HR Ha Hn.
  assert (Hl : lex s = Ok ts) by (apply (lex_complete _ _ HR); [exact Ha | lia]).
  rewrite (eval_is_yard _ _ Hl). now apply yard_divzero.
Qed.

(* stray characters *)
Lemma unsigned_lit_chars oct u v : unsigned_lit oct u v -> Forall expr_char u.
Proof.
  assert (Hd : forall c, dec_digit c -> expr_char c) by (intros c H; right; right; left; now left).
  assert (Hh : forall c, hex_digit c -> expr_char c) by (intros c H; right; right; now left).
  assert (H0 : expr_char 48) by (apply Hd; unfold dec_digit; lia).
  intros H. destruct H as [| d ds Hdd Hnz HF | d ds HF | d ds HF | d ds _ HF].
  - constructor; [exact H0 | constructor].
  - constructor; [now apply Hd | eapply Forall_impl; [|exact HF]; exact Hd].
  - constructor; [exact H0|]. constructor; [right; right; now right|].
    eapply Forall_impl; [|exact HF]; exact Hh.
  - constructor; [exact H0|]. constructor; [apply Hh; right; lia|].
    eapply Forall_impl; [|exact HF]. intros c [-> | ->]; apply Hd; unfold dec_digit; lia.
  - constructor; [exact H0|]. eapply Forall_impl; [|exact HF].
    intros c Hc. apply Hd. unfold oct_digit in Hc. unfold dec_digit. lia.
Qed.

Lemma renders_chars oct s ts : renders oct s ts -> Forall expr_char s.
Proof.
  induction 1 as [| s ts HR IH | t v s ts Hl Hd HR IH | o s ts HR IH].
  - constructor.
  - constructor; [now left | exact IH].
  - apply Forall_app. split; [|exact IH].
    destruct Hl as [u w H | u w H]; [now apply (unsigned_lit_chars _ _ _ H)|].
    constructor; [right; left; now exists Sub | now apply (unsigned_lit_chars _ _ _ H)].
  - constructor; [right; left; now exists o | exact IH].
Qed.

Theorem stray_char_err s c : In c s -> ~ expr_char c -> exists e, eval s = Err e.
Proof.
  intros Hi Hc. apply malformed_err. intros ts v HR _.
  apply renders_chars in HR. rewrite Forall_forall in HR. exact (Hc (HR c Hi)).
Qed.

(* the operator step of the model against the specified operator semantics *)
Lemma apply_binop o x y z vs : apply o (y :: x :: vs) = Ok (z :: vs) <-> binop o x y z.
Proof.
  rewrite apply_aply, binop_aply. destruct (aply o x y) as [w|].
  - split; intros H; [injection H as <-; reflexivity | injection H as <-; reflexivity].
  - split; discriminate.
Qed.

Lemma eval_complete_std s ts v : renders false s ts -> E ts v -> eval s = Ok v.
Proof. intros HR. apply eval_complete. now apply renders_mono. Qed.

Lemma number_complete_std t v rest : literal false t v -> delimited rest ->
  number (t ++ rest) = Ok (v, rest).
Proof. intros H. apply number_complete. now apply literal_mono. Qed.

Lemma eval_ok_or_err s : (exists v, eval s = Ok v) \/ (exists c, eval s = Err c).
Proof.
  pose proof (eval_settled s) as H. destruct (eval s) as [v|c|c|]; try destruct H; eauto.
Qed.
