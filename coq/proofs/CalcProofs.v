From Coq Require Import String.
From Coq Require Import List NArith ZArith Bool Lia.
From AV Require Import model.Proto model.Calc.
Import ListNotations.
Open Scope Z_scope.

(* ediv is Euclidean division: the remainder lies in [0, |y|) *)
Lemma ediv_euclid x y : y <> 0 -> 0 <= x - ediv x y * y < Z.abs y.
Proof.
  intros Hy. unfold ediv. destruct (y <? 0) eqn:E.
  - apply Z.ltb_lt in E.
    pose proof (Z.mod_pos_bound x (- y) ltac:(lia)) as Hm.
    pose proof (Z.div_mod x (- y) ltac:(lia)) as Hd. nia.
  - apply Z.ltb_ge in E.
    pose proof (Z.mod_pos_bound x y ltac:(lia)) as Hm.
    pose proof (Z.div_mod x y ltac:(lia)) as Hd. nia.
Qed.
