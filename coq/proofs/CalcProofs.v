(* Proofs for C13: the evaluator model (model/Calc.v) against the specification (CalcSpec.v). *)
From Coq Require Import String.
From Coq Require Import List NArith ZArith Bool Lia ZifyBool ZifyN.
From AV Require Import model.Proto model.Calc proofs.CalcSpec.
Import ListNotations.
Open Scope Z_scope.

(* ====================================================================================== *)
(* 1. One operator                                                                         *)
(* ====================================================================================== *)

(* ediv is Euclidean division: the remainder lies in [0, |y|) *)
Lemma ediv_euclid x y : y <> 0 -> 0 <= x - ediv x y * y < Z.abs y.
Proof.
  intros Hy. unfold ediv. destruct (y <? 0) eqn:E.
  - apply Z.ltb_lt in E.
    pose proof (Z.mod_pos_bound x (- y) ltac:(lia)) as Hm.
    pose proof (Z.div_mod x (- y) ltac:(lia)) as Hd. nia.
  - apply Z.ltb_ge in E.
    pose proof (Z.mod_pos_bound x y ltac:(lia)) as Hm.
    pose proof (Z.div_mod x y ltac:(lia)) as Hd. nia.
Qed.

Lemma ediv_is_equot x y : y <> 0 -> is_equot x y (ediv x y).
Proof.
  intros Hy. exists (x - ediv x y * y). split; [lia | now apply ediv_euclid].
Qed.

Lemma equot_unique x y q q' : is_equot x y q -> is_equot x y q' -> q = q'.
Proof.
  intros [r [H1 H2]] [r' [H1' H2']].
  destruct (Z.eq_dec q q') as [|Hne]; [assumption | exfalso].
  assert (Hd : (q - q') * y = r' - r) by lia.
  assert (Ha : Z.abs ((q - q') * y) < Z.abs y) by (rewrite Hd; lia).
  rewrite Z.abs_mul in Ha.
  assert (1 <= Z.abs (q - q')) by lia. nia.
Qed.

(* the value apply computes for "x o y": None when the evaluator reports a division by zero *)
Definition aply (o : bop) (x y : Z) : option Z :=
  if nonzero o && (y =? 0) then None
  else match arith o x y with Ok z => Some z | _ => None end.

Definition divzero : list N := $"divzero".

Lemma apply_aply o x y vs :
  apply o (y :: x :: vs) =
  match aply o x y with Some z => Ok (z :: vs) | None => Err divzero end.
Proof.
  unfold apply, aply.
  destruct o; cbn [nonzero andb arith obind]; try reflexivity.
  destruct (y =? 0); reflexivity.
Qed.

Lemma apply_short o vs : (length vs < 2)%nat -> apply o vs = Err $"toofew".
Proof.
  destruct vs as [|a [|b vs]]; cbn [length]; intros H; try reflexivity. lia.
Qed.

Lemma binop_aply o x y z : binop o x y z <-> aply o x y = Some z.
Proof.
  split.
  - intros H. destruct H; unfold aply; cbn [nonzero andb arith].
    + destruct (y <=? 0) eqn:E; [lia | reflexivity].
    + destruct (y <=? 0) eqn:E; [reflexivity | lia].
    + reflexivity.
    + destruct (y =? 0) eqn:E; [lia|]. f_equal.
      apply (equot_unique x y); [now apply ediv_is_equot | assumption].
    + reflexivity.
    + reflexivity.
  - unfold aply. destruct o; cbn [nonzero andb arith]; intros H.
    + injection H as <-. destruct (y <=? 0) eqn:E; [apply b_pow_nonpos | apply b_pow_pos]; lia.
    + injection H as <-. constructor.
    + destruct (y =? 0) eqn:E; [discriminate|]. injection H as <-.
      apply b_div; [lia | apply ediv_is_equot; lia].
    + injection H as <-. constructor.
    + injection H as <-. constructor.
Qed.

Lemma aply_total o x y : aply o x y = None -> o = Div /\ y = 0.
Proof.
  unfold aply. destruct o; cbn [nonzero andb arith]; try discriminate.
  destruct (y =? 0) eqn:E; [split; [reflexivity | lia] | discriminate].
Qed.

(* ====================================================================================== *)
(* 2. Token level: the shunting yard against the grammar                                   *)
(* ====================================================================================== *)

(* The loop of Eval over tokens instead of bytes (number() replaced by TNum). *)
Fixpoint run (ts : list tok) (operand : bool) (vs : list Z) (os : list bop) : outcome Z :=
  match ts with
  | [] => result vs os
  | TNum n :: ts' => if operand then run ts' false (n :: vs) os else Err $"operator"
  | TOp o :: ts' =>
      if operand then Err $"number"
      else obind (push_operator o vs os) (fun st => run ts' true (fst st) (snd st))
  end.

Definition yard (ts : list tok) : outcome Z := run ts true [] [].

(* does top stay on the stack when nxt arrives? (None = end of input: everything is popped) *)
Definition stop (top : bop) (nxt : option bop) : bool :=
  match nxt with
  | None => false
  | Some o => (prec top <? prec o)%N || ((prec top =? prec o)%N && rassoc o)
  end.

Definition cont (nxt : option bop) (rest : list tok) : list tok :=
  match nxt with Some o => TOp o :: rest | None => [] end.

Definition after (nxt : option bop) (rest : list tok) (vs : list Z) (os : list bop) : outcome Z :=
  run (cont nxt rest) false vs os.

Lemma after_nopop nxt rest a b vs top os :
  stop top nxt = false ->
  after nxt rest (b :: a :: vs) (top :: os) =
  match aply top a b with Some z => after nxt rest (z :: vs) os | None => Err divzero end.
Proof.
  intros Hs. destruct nxt as [o|]; unfold after, cont; cbn [run].
  - unfold push_operator. cbn [pop_while]. unfold stop in Hs. rewrite Hs.
    rewrite apply_aply. destruct (aply top a b); reflexivity.
  - cbn [result]. rewrite apply_aply. destruct (aply top a b); reflexivity.
Qed.

Lemma after_push o rest vs os :
  match os with [] => True | top :: _ => stop top (Some o) = true end ->
  after (Some o) rest vs os = run rest true vs (o :: os).
Proof.
  intros Hs. unfold after, cont. cbn [run]. unfold push_operator.
  destruct os as [|top os]; cbn [pop_while]; [reflexivity|].
  unfold stop in Hs. rewrite Hs. reflexivity.
Qed.

Lemma stop_pow top : stop top (Some Pow) = true.
Proof. destruct top; reflexivity. Qed.

(* the grammar with an explicit "division by zero inside" result (None) *)
Definition obin (o : bop) (r1 r2 : option Z) : option Z :=
  match r1, r2 with Some a, Some b => aply o a b | _, _ => None end.

Inductive Fg : list tok -> option Z -> Prop :=
| Fg_num n : Fg [TNum n] (Some n)
| Fg_pow n ts r : Fg ts r -> Fg (TNum n :: TOp Pow :: ts) (obin Pow (Some n) r).

Inductive Tg : list tok -> option Z -> Prop :=
| Tg_f ts r : Fg ts r -> Tg ts r
| Tg_mul ts1 ts2 r1 r2 o : Tg ts1 r1 -> Fg ts2 r2 -> (o = Mul \/ o = Div) ->
    Tg (ts1 ++ TOp o :: ts2) (obin o r1 r2).

Inductive Eg : list tok -> option Z -> Prop :=
| Eg_t ts r : Tg ts r -> Eg ts r
| Eg_add ts1 ts2 r1 r2 o : Eg ts1 r1 -> Tg ts2 r2 -> (o = Add \/ o = Sub) ->
    Eg (ts1 ++ TOp o :: ts2) (obin o r1 r2).

Definition goes (r : option Z) (k : Z -> outcome Z) : outcome Z :=
  match r with Some v => k v | None => Err divzero end.

(* running a factor's tokens, then the continuation = pushing its value, then the continuation *)
Lemma Fg_run ts r : Fg ts r -> forall nxt rest vs os, nxt <> Some Pow ->
  run (ts ++ cont nxt rest) true vs os = goes r (fun v => after nxt rest (v :: vs) os).
Proof.
  induction 1 as [n | n ts r HF IH]; intros nxt rest vs os Hn.
  - reflexivity.
  - cbn [app run].
    change (obind (push_operator Pow (n :: vs) os)
              (fun st => run (ts ++ cont nxt rest) true (fst st) (snd st)))
      with (after (Some Pow) (ts ++ cont nxt rest) (n :: vs) os).
    rewrite after_push by (destruct os; [exact I | apply stop_pow]).
    rewrite (IH nxt rest (n :: vs) (Pow :: os) Hn).
    destruct r as [v|]; cbn [goes obin]; [|reflexivity].
    rewrite after_nopop.
    + destruct (aply Pow n v); reflexivity.
    + destruct nxt as [[]|]; try reflexivity. congruence.
Qed.

(* the operator stack is "low": its top (if any) is + or - *)
Definition low (os : list bop) : Prop :=
  match os with [] => True | top :: _ => top = Add \/ top = Sub end.

Lemma low_stop_mul o os : (o = Mul \/ o = Div) -> low os ->
  match os with [] => True | top :: _ => stop top (Some o) = true end.
Proof.
  intros Ho Hl. destruct os as [|top os]; [exact I|].
  cbn [low] in Hl. destruct Ho as [-> | ->], Hl as [-> | ->]; reflexivity.
Qed.

Lemma Tg_run ts r : Tg ts r -> forall nxt rest vs os, nxt <> Some Pow -> low os ->
  run (ts ++ cont nxt rest) true vs os = goes r (fun v => after nxt rest (v :: vs) os).
Proof.
  induction 1 as [ts r HF | ts1 ts2 r1 r2 o HT IH HF Ho]; intros nxt rest vs os Hn Hl.
  - now apply (Fg_run _ _ HF).
  - rewrite <- app_assoc. cbn [app].
    change (TOp o :: ts2 ++ cont nxt rest) with (cont (Some o) (ts2 ++ cont nxt rest)).
    rewrite IH; [| destruct Ho as [-> | ->]; congruence | assumption].
    destruct r1 as [v1|]; cbn [goes obin]; [|reflexivity].
    rewrite after_push by (now apply low_stop_mul).
    rewrite (Fg_run _ _ HF nxt rest (v1 :: vs) (o :: os) Hn).
    destruct r2 as [v2|]; cbn [goes]; [|reflexivity].
    rewrite after_nopop.
    + destruct (aply o v1 v2); reflexivity.
    + destruct nxt as [[]|]; destruct Ho as [-> | ->]; try reflexivity; congruence.
Qed.

Lemma Eg_run ts r : Eg ts r -> forall nxt rest vs,
  (nxt = None \/ nxt = Some Add \/ nxt = Some Sub) ->
  run (ts ++ cont nxt rest) true vs [] = goes r (fun v => after nxt rest (v :: vs) []).
Proof.
  induction 1 as [ts r HT | ts1 ts2 r1 r2 o HE IH HT Ho]; intros nxt rest vs Hn.
  - apply (Tg_run _ _ HT); [destruct Hn as [-> | [-> | ->]]; congruence | exact I].
  - rewrite <- app_assoc. cbn [app].
    change (TOp o :: ts2 ++ cont nxt rest) with (cont (Some o) (ts2 ++ cont nxt rest)).
    rewrite IH by (destruct Ho as [-> | ->]; auto).
    destruct r1 as [v1|]; cbn [goes obin]; [|reflexivity].
    rewrite after_push by exact I.
    rewrite (Tg_run _ _ HT nxt rest (v1 :: vs) [o]);
      [| destruct Hn as [-> | [-> | ->]]; congruence | exact Ho].
    destruct r2 as [v2|]; cbn [goes]; [|reflexivity].
    rewrite after_nopop.
    + destruct (aply o v1 v2); reflexivity.
    + destruct Hn as [-> | [-> | ->]]; destruct Ho as [-> | ->]; reflexivity.
Qed.

Lemma yard_complete_gen ts r : Eg ts r ->
  yard ts = match r with Some v => Ok v | None => Err divzero end.
Proof.
  intros HE. unfold yard.
  pose proof (Eg_run ts r HE None [] [] (or_introl eq_refl)) as H.
  cbn [cont] in H. rewrite app_nil_r in H. rewrite H.
  destruct r; reflexivity.
Qed.

(* the plain grammar is the Some-part of the generalised one *)
Lemma F_Fg ts v : F ts v -> Fg ts (Some v).
Proof.
  induction 1 as [n | n ts v z HF IH Hb].
  - constructor.
  - apply binop_aply in Hb.
    replace (Some z) with (obin Pow (Some n) (Some v)) by exact Hb. now constructor.
Qed.

Lemma T_Tg ts v : T ts v -> Tg ts (Some v).
Proof.
  induction 1 as [ts v HF | ts1 ts2 v1 v2 o z HT IH HF Ho Hb].
  - apply Tg_f. now apply F_Fg.
  - apply binop_aply in Hb.
    replace (Some z) with (obin o (Some v1) (Some v2)) by exact Hb.
    apply Tg_mul; [assumption | now apply F_Fg | assumption].
Qed.

Lemma E_Eg ts v : E ts v -> Eg ts (Some v).
Proof.
  induction 1 as [ts v HT | ts1 ts2 v1 v2 o z HE IH HT Ho Hb].
  - apply Eg_t. now apply T_Tg.
  - apply binop_aply in Hb.
    replace (Some z) with (obin o (Some v1) (Some v2)) by exact Hb.
    apply Eg_add; [assumption | now apply T_Tg | assumption].
Qed.

Lemma obin_some o r1 r2 z : obin o r1 r2 = Some z ->
  exists v1 v2, r1 = Some v1 /\ r2 = Some v2 /\ binop o v1 v2 z.
Proof.
  destruct r1 as [v1|], r2 as [v2|]; cbn [obin]; try discriminate.
  intros H. exists v1, v2. repeat split. now apply binop_aply.
Qed.

Lemma Fg_F ts r : Fg ts r -> forall v, r = Some v -> F ts v.
Proof.
  induction 1 as [n | n ts r HF IH]; intros v Hv.
  - injection Hv as <-. constructor.
  - apply obin_some in Hv. destruct Hv as [v1 [v2 [H1 [H2 Hb]]]].
    injection H1 as <-. eapply F_pow; [apply IH; exact H2 | exact Hb].
Qed.

Lemma Tg_T ts r : Tg ts r -> forall v, r = Some v -> T ts v.
Proof.
  induction 1 as [ts r HF | ts1 ts2 r1 r2 o HT IH HF Ho]; intros v Hv.
  - apply T_f. eapply Fg_F; eassumption.
  - apply obin_some in Hv. destruct Hv as [v1 [v2 [H1 [H2 Hb]]]].
    eapply T_mul; [apply IH; exact H1 | eapply Fg_F; eassumption | exact Ho | exact Hb].
Qed.

Lemma Eg_E ts r : Eg ts r -> forall v, r = Some v -> E ts v.
Proof.
  induction 1 as [ts r HT | ts1 ts2 r1 r2 o HE IH HT Ho]; intros v Hv.
  - apply E_t. eapply Tg_T; eassumption.
  - apply obin_some in Hv. destruct Hv as [v1 [v2 [H1 [H2 Hb]]]].
    eapply E_add; [apply IH; exact H1 | eapply Tg_T; eassumption | exact Ho | exact Hb].
Qed.

(* completeness: the yard computes the value the grammar assigns *)
Theorem yard_complete ts v : E ts v -> yard ts = Ok v.
Proof. intros H. apply E_Eg in H. now rewrite (yard_complete_gen _ _ H). Qed.

(* ---- totality of the generalised grammar on alternating token lists ---- *)
Lemma Fg_snoc_pow ts r n : Fg ts r -> exists r', Fg (ts ++ [TOp Pow; TNum n]) r'.
Proof.
  induction 1 as [m | m ts r HF [r' IH]].
  - eexists. cbn [app]. apply Fg_pow. apply Fg_num.
  - eexists. cbn [app]. apply Fg_pow. exact IH.
Qed.

Lemma Tg_snoc_pow ts r n : Tg ts r -> exists r', Tg (ts ++ [TOp Pow; TNum n]) r'.
Proof.
  destruct 1 as [ts r HF | ts1 ts2 r1 r2 o HT HF Ho].
  - destruct (Fg_snoc_pow _ _ n HF) as [r' H]. eexists. apply Tg_f. exact H.
  - destruct (Fg_snoc_pow _ _ n HF) as [r' H]. eexists.
    rewrite <- app_assoc. cbn [app]. apply Tg_mul; eassumption.
Qed.

Lemma Eg_snoc_pow ts r n : Eg ts r -> exists r', Eg (ts ++ [TOp Pow; TNum n]) r'.
Proof.
  destruct 1 as [ts r HT | ts1 ts2 r1 r2 o HE HT Ho].
  - destruct (Tg_snoc_pow _ _ n HT) as [r' H]. eexists. apply Eg_t. exact H.
  - destruct (Tg_snoc_pow _ _ n HT) as [r' H]. eexists.
    rewrite <- app_assoc. cbn [app]. apply Eg_add; eassumption.
Qed.

Lemma Tg_snoc_mul ts r o n : (o = Mul \/ o = Div) -> Tg ts r ->
  exists r', Tg (ts ++ [TOp o; TNum n]) r'.
Proof.
  intros Ho HT. eexists. apply Tg_mul; [exact HT | apply Fg_num | exact Ho].
Qed.

Lemma Eg_snoc_mul ts r o n : (o = Mul \/ o = Div) -> Eg ts r ->
  exists r', Eg (ts ++ [TOp o; TNum n]) r'.
Proof.
  intros Ho. destruct 1 as [ts r HT | ts1 ts2 r1 r2 o' HE HT Ho'].
  - destruct (Tg_snoc_mul _ _ o n Ho HT) as [r' H]. eexists. apply Eg_t. exact H.
  - destruct (Tg_snoc_mul _ _ o n Ho HT) as [r' H]. eexists.
    rewrite <- app_assoc. cbn [app]. apply Eg_add; eassumption.
Qed.

Lemma Eg_snoc ts r o n : Eg ts r -> exists r', Eg (ts ++ [TOp o; TNum n]) r'.
Proof.
  intros HE. destruct o.
  - now apply (Eg_snoc_pow _ _ n HE).
  - apply (Eg_snoc_mul ts r Mul n); auto.
  - apply (Eg_snoc_mul ts r Div n); auto.
  - eexists. apply Eg_add; [exact HE | apply Tg_f, Fg_num | auto].
  - eexists. apply Eg_add; [exact HE | apply Tg_f, Fg_num | auto].
Qed.

Lemma Eg_total_from k : forall r pre rp, (length r <= k)%nat -> Eg pre rp ->
  alternates false r -> exists r', Eg (pre ++ r) r'.
Proof.
  induction k as [|k IH]; intros r pre rp Hl HE Ha.
  - destruct r; [|cbn [length] in Hl; lia]. rewrite app_nil_r. eauto.
  - destruct r as [|[n|o] r1]; [rewrite app_nil_r; eauto | destruct Ha |].
    cbn [alternates] in Ha. destruct r1 as [|[n|o'] r2]; [destruct Ha | | destruct Ha].
    cbn [alternates] in Ha.
    destruct (Eg_snoc _ _ o n HE) as [r1 H1].
    destruct (IH r2 _ _ ltac:(cbn [length] in Hl; lia) H1 Ha) as [r' H'].
    exists r'. rewrite <- app_assoc in H'. exact H'.
Qed.

Lemma Eg_total ts : alternates true ts -> exists r, Eg ts r.
Proof.
  destruct ts as [|[n|o] r]; cbn [alternates]; intros Ha; try destruct Ha.
  apply (Eg_total_from (length r) r [TNum n] (Some n)); [lia | apply Eg_t, Tg_f, Fg_num | exact Ha].
Qed.

(* ---- stack-depth invariant: a value can only come out of an alternating token list ---- *)
Lemma apply_len o vs vs' : apply o vs = Ok vs' -> length vs = S (length vs').
Proof.
  destruct vs as [|y [|x vs]]; try discriminate.
  rewrite apply_aply. destruct (aply o x y); [|discriminate].
  intros H. injection H as <-. reflexivity.
Qed.

Lemma pop_while_len o : forall os vs vs' os', pop_while o vs os = Ok (vs', os') ->
  (length vs + length os' = length vs' + length os)%nat.
Proof.
  induction os as [|top os IH]; intros vs vs' os' H; cbn [pop_while] in H.
  - injection H as <- <-. reflexivity.
  - destruct ((prec top <? prec o)%N || ((prec top =? prec o)%N && rassoc o)).
    + injection H as <- <-. reflexivity.
    + destruct (apply top vs) as [vs1| | |] eqn:Ea; try discriminate.
      cbn [obind] in H. apply IH in H. apply apply_len in Ea. cbn [length]. lia.
Qed.

Lemma result_len : forall os vs v, result vs os = Ok v -> length vs = S (length os).
Proof.
  induction os as [|top os IH]; intros vs v H; cbn [result] in H.
  - destruct vs as [|a [|b vs]]; try discriminate. reflexivity.
  - destruct (apply top vs) as [vs1| | |] eqn:Ea; try discriminate.
    cbn [obind] in H. apply IH in H. apply apply_len in Ea. cbn [length]. lia.
Qed.

Lemma run_ok_alt : forall ts operand vs os v, run ts operand vs os = Ok v ->
  (length vs + (if operand then 1 else 0) = S (length os))%nat -> alternates operand ts.
Proof.
  induction ts as [|[n|o] ts IH]; intros operand vs os v H Hl.
  - cbn [run] in H. apply result_len in H. destruct operand; [lia | exact I].
  - cbn [run] in H. destruct operand; [|discriminate]. cbn [alternates].
    apply (IH _ _ _ _ H). cbn [length]. lia.
  - cbn [run] in H. destruct operand; [discriminate|]. cbn [alternates].
    unfold push_operator in H.
    destruct (pop_while o vs os) as [[vs' os']| | |] eqn:Ep; try discriminate.
    cbn [obind fst snd] in H. apply pop_while_len in Ep.
    apply (IH _ _ _ _ H). cbn [length]. lia.
Qed.

(* soundness: a value returned by the yard is the value the grammar assigns *)
Theorem yard_sound ts v : yard ts = Ok v -> E ts v.
Proof.
  intros H. pose proof (run_ok_alt _ _ _ _ _ H eq_refl) as Ha.
  destruct (Eg_total _ Ha) as [r Hr].
  pose proof (yard_complete_gen _ _ Hr) as Hc. rewrite H in Hc.
  destruct r as [v'|]; [|discriminate]. injection Hc as ->.
  now apply (Eg_E _ _ Hr).
Qed.

Theorem E_unique ts v v' : E ts v -> E ts v' -> v = v'.
Proof.
  intros H H'. apply yard_complete in H. apply yard_complete in H'.
  rewrite H in H'. now injection H'.
Qed.

Lemma E_alternates ts v : E ts v -> alternates true ts.
Proof. intros H. apply yard_complete in H. exact (run_ok_alt _ _ _ _ _ H eq_refl). Qed.

(* on an alternating list the only thing that can go wrong is a division by zero *)
Theorem yard_divzero ts : alternates true ts -> (forall v, ~ E ts v) -> yard ts = Err divzero.
Proof.
  intros Ha Hn. destruct (Eg_total _ Ha) as [r Hr].
  rewrite (yard_complete_gen _ _ Hr). destruct r as [v|]; [|reflexivity].
  exfalso. apply (Hn v). now apply (Eg_E _ _ Hr).
Qed.

(* ---- the model never panics and never runs out of fuel at token level ---- *)
Definition settled {A} (x : outcome A) : Prop :=
  match x with Ok _ | Err _ => True | _ => False end.

Lemma apply_settled o vs : settled (apply o vs).
Proof.
  destruct vs as [|y [|x vs]]; try exact I.
  rewrite apply_aply. destruct (aply o x y); exact I.
Qed.

Lemma pop_while_settled o : forall os vs, settled (pop_while o vs os).
Proof.
  induction os as [|top os IH]; intros vs; cbn [pop_while]; [exact I|].
  destruct ((prec top <? prec o)%N || ((prec top =? prec o)%N && rassoc o)); [exact I|].
  pose proof (apply_settled top vs) as Hs.
  destruct (apply top vs); cbn [obind]; try exact Hs. apply IH.
Qed.

Lemma push_settled o vs os : settled (push_operator o vs os).
Proof.
  unfold push_operator. pose proof (pop_while_settled o os vs) as Hs.
  destruct (pop_while o vs os); cbn [obind]; exact Hs.
Qed.

Lemma result_settled : forall os vs, settled (result vs os).
Proof.
  induction os as [|top os IH]; intros vs; cbn [result].
  - destruct vs as [|a [|b vs]]; exact I.
  - pose proof (apply_settled top vs) as Hs.
    destruct (apply top vs); cbn [obind]; try exact Hs. apply IH.
Qed.

Lemma run_settled : forall ts operand vs os, settled (run ts operand vs os).
Proof.
  induction ts as [|[n|o] ts IH]; intros operand vs os; cbn [run].
  - apply result_settled.
  - destruct operand; [apply IH | exact I].
  - destruct operand; [exact I|].
    pose proof (push_settled o vs os) as Hs.
    destruct (push_operator o vs os); cbn [obind]; try exact Hs. apply IH.
Qed.
