(* Proofs about acc.Decompile (C04): the instruction list expands back to exactly the
   original operations, and no instruction reads an index that nothing outputs. *)
From Coq Require Import String.
From Coq Require Import List NArith ZArith Bool Arith Lia.
From AV Require Import model.Proto model.Chain model.Program model.Ir model.Decompile model.Naming.
Import ListNotations.

(* ------------------------------------------------------------------ *)
(* Program.ReadCounts                                                  *)
(* ------------------------------------------------------------------ *)

Definition uses (o : op) (x : nat) : bool := (fst o =? x)%nat || (snd o =? x)%nat.
Definition reads_of (p : list op) (x : nat) : nat := length (filter (fun o => uses o x) p).

Lemma bump_ok l i : (i < length l)%nat ->
  bump l i = Ok (firstn i l ++ [S (nth i l O)] ++ skipn (S i) l).
Proof. intros H. unfold bump. apply Nat.ltb_lt in H. now rewrite H. Qed.

Lemma bump_spec l i l' : bump l i = Ok l' ->
  length l' = length l /\ forall x, nth x l' O = if (x =? i)%nat then S (nth x l O) else nth x l O.
Proof.
  unfold bump. destruct (i <? length l)%nat eqn:E; [|discriminate]. apply Nat.ltb_lt in E.
  intros H. assert (H' : l' = firstn i l ++ [S (nth i l O)] ++ skipn (S i) l) by congruence.
  subst l'. clear H. split.
  - rewrite !app_length, firstn_length, skipn_length. change (length [S (nth i l O)]) with 1%nat. lia.
  - intros x. destruct (x =? i)%nat eqn:Ex.
    + apply Nat.eqb_eq in Ex. subst x. rewrite app_nth2; rewrite firstn_length; [|lia].
      replace (i - Nat.min i (length l))%nat with O by lia. reflexivity.
    + apply Nat.eqb_neq in Ex. destruct (Nat.lt_ge_cases x i) as [Hlt|Hge].
      * rewrite app_nth1 by (rewrite firstn_length; lia).
        rewrite <- (firstn_skipn i l) at 2. rewrite app_nth1 by (rewrite firstn_length; lia). reflexivity.
      * rewrite app_nth2 by (rewrite firstn_length; lia). rewrite firstn_length.
        replace (Nat.min i (length l)) with i by lia.
        destruct (x - i)%nat as [|d] eqn:Ed; [lia|]. cbn [app nth].
        rewrite <- (firstn_skipn (S i) l) at 2.
        rewrite app_nth2 by (rewrite firstn_length; lia). rewrite firstn_length.
        replace (Nat.min (S i) (length l)) with (S i) by lia. f_equal. lia.
Qed.

Lemma read_counts_loop_spec : forall p reads,
  (forall o, In o p -> (fst o < length reads /\ snd o < length reads)%nat) ->
  exists nr, read_counts_loop reads p = Ok nr /\ length nr = length reads /\
             forall x, nth x nr O = (nth x reads O + reads_of p x)%nat.
Proof.
  induction p as [|[a b] p IH]; intros reads Hb.
  - exists reads. cbn. repeat split; auto.
  - assert (Ha : (a < length reads /\ b < length reads)%nat) by (apply (Hb (a, b)); left; reflexivity).
    cbn [read_counts_loop]. destruct (a =? b)%nat eqn:Eab.
    + apply Nat.eqb_eq in Eab. subst b. rewrite (bump_ok reads a) by tauto. cbn [obind].
      destruct (bump_spec reads a _ (bump_ok reads a (proj1 Ha))) as [Hl Hn].
      destruct (IH (firstn a reads ++ [S (nth a reads O)] ++ skipn (S a) reads)) as (nr & E & Hlen & Hnth).
      { intros o Ho. rewrite Hl. apply Hb. now right. }
      exists nr. split; [exact E|]. split; [congruence|]. intros x. rewrite Hnth, Hn.
      unfold reads_of. cbn [filter]. unfold uses at 2. cbn [fst snd].
      destruct (x =? a)%nat eqn:Ex.
      * apply Nat.eqb_eq in Ex. subst x. rewrite Nat.eqb_refl. cbn [orb length]. lia.
      * rewrite Nat.eqb_sym, Ex. cbn [orb]. lia.
    + apply Nat.eqb_neq in Eab. rewrite (bump_ok reads a) by tauto. cbn [obind].
      destruct (bump_spec reads a _ (bump_ok reads a (proj1 Ha))) as [Hl Hn].
      set (r1 := firstn a reads ++ [S (nth a reads O)] ++ skipn (S a) reads) in *.
      assert (Hb1 : (b < length r1)%nat) by lia.
      rewrite (bump_ok r1 b Hb1). cbn [obind].
      destruct (bump_spec r1 b _ (bump_ok r1 b Hb1)) as [Hl2 Hn2].
      destruct (IH (firstn b r1 ++ [S (nth b r1 O)] ++ skipn (S b) r1)) as (nr & E & Hlen & Hnth).
      { intros o Ho. rewrite Hl2, Hl. apply Hb. now right. }
      exists nr. split; [exact E|]. split; [congruence|]. intros x. rewrite Hnth, Hn2, Hn.
      unfold reads_of. cbn [filter]. unfold uses at 2. cbn [fst snd].
      destruct (x =? a)%nat eqn:Exa; destruct (x =? b)%nat eqn:Exb.
      * apply Nat.eqb_eq in Exa, Exb. lia.
      * rewrite (Nat.eqb_sym a x), Exa. cbn [orb length]. lia.
      * rewrite (Nat.eqb_sym a x), Exa, (Nat.eqb_sym b x), Exb. cbn [orb length]. lia.
      * rewrite (Nat.eqb_sym a x), Exa, (Nat.eqb_sym b x), Exb. cbn [orb]. lia.
Qed.

Lemma wf_program_in p : wf_program p -> forall o, In o p -> (fst o < S (length p) /\ snd o < S (length p))%nat.
Proof.
  intros Hwf [a b] Ho. apply In_nth_error in Ho as [k Hk].
  pose proof (Hwf k a b Hk) as [H1 H2].
  assert (k < length p)%nat by (apply nth_error_Some; congruence). cbn [fst snd]. lia.
Qed.

Lemma read_counts_spec p : wf_program p ->
  exists nr, read_counts p = Ok nr /\ length nr = S (length p) /\ forall x, nth x nr O = reads_of p x.
Proof.
  intros Hwf. unfold read_counts.
  destruct (read_counts_loop_spec p (repeat O (S (length p)))) as (nr & E & Hl & Hn).
  { intros o Ho. rewrite repeat_length. now apply wf_program_in. }
  exists nr. split; [exact E|]. split; [now rewrite Hl, repeat_length|].
  intros x. rewrite Hn. replace (nth x (repeat O (S (length p))) O) with O; [reflexivity|].
  symmetry. destruct (Nat.lt_ge_cases x (S (length p))) as [H|H].
  - apply nth_repeat.
  - apply nth_overflow. now rewrite repeat_length.
Qed.

(* an index read exactly once is read by one operation only *)
Lemma reads_one_unique : forall p x t o, reads_of p x = 1%nat -> nth_error p t = Some o -> uses o x = true ->
  forall t' o', t' <> t -> nth_error p t' = Some o' -> uses o' x = false.
Proof.
  unfold reads_of. induction p as [|q p IH]; intros x t o H1 Ht Hu t' o' Hne Ht'.
  - destruct t; discriminate.
  - cbn [filter] in H1. destruct t as [|t]; destruct t' as [|t']; try congruence; cbn [nth_error] in Ht, Ht'.
    + injection Ht as ->. rewrite Hu in H1. cbn [length] in H1.
      destruct (uses o' x) eqn:E; [|reflexivity]. exfalso.
      apply nth_error_In in Ht'. assert (In o' (filter (fun o0 => uses o0 x) p)) by (apply filter_In; auto).
      destruct (filter (fun o0 => uses o0 x) p); [contradiction|discriminate].
    + injection Ht' as ->. destruct (uses o' x) eqn:E; [|reflexivity]. exfalso. cbn [length] in H1.
      apply nth_error_In in Ht. assert (In o (filter (fun o0 => uses o0 x) p)) by (apply filter_In; auto).
      destruct (filter (fun o0 => uses o0 x) p); [contradiction|discriminate].
    + destruct (uses q x); [|apply (IH x t o H1 Ht Hu t' o'); [congruence|exact Ht']].
      cbn [length] in H1. exfalso.
      apply nth_error_In in Ht. assert (In o (filter (fun o0 => uses o0 x) p)) by (apply filter_In; auto).
      destruct (filter (fun o0 => uses o0 x) p); [contradiction|discriminate].
Qed.

(* ------------------------------------------------------------------ *)
(* the look-ahead loop and the skip counter                            *)
(* ------------------------------------------------------------------ *)

Definition dbl_run (j m : nat) : list op := map (fun t => ((j + t)%nat, (j + t)%nat)) (seq 0 m).

Lemma dbl_run_S j m : dbl_run j (S m) = (j, j) :: dbl_run (S j) m.
Proof.
  unfold dbl_run. cbn [seq map]. rewrite Nat.add_0_r. f_equal.
  rewrite <- seq_shift, map_map. apply map_ext. intros t. f_equal; lia.
Qed.

Lemma dbl_run_length j m : length (dbl_run j m) = m.
Proof. unfold dbl_run. now rewrite map_length, seq_length. Qed.

Lemma dbl_run_nth j m t : (t < m)%nat -> nth_error (dbl_run j m) t = Some ((j + t)%nat, (j + t)%nat).
Proof.
  intros H. unfold dbl_run. rewrite nth_error_map. rewrite nth_error_nth' with (d := O) by (now rewrite seq_length).
  rewrite seq_nth by assumption. reflexivity.
Qed.

(* what the loop "for ; j < len(p) && numreads[j] == 1 && p[j] == (j,j); j++" has seen *)
Lemma run_len_spec nr : forall r j, exists r',
  r = dbl_run j (run_len nr j r) ++ r' /\
  forall t, (t < run_len nr j r)%nat -> nth (j + t) nr O = 1%nat.
Proof.
  induction r as [|[a b] r IH]; intros j.
  - exists []. cbn. split; [reflexivity|]. intros t Ht. lia.
  - cbn [run_len]. destruct ((nth j nr O =? 1)%nat && (a =? j)%nat && (b =? j)%nat) eqn:E.
    + apply andb_true_iff in E as [E Eb]. apply andb_true_iff in E as [En Ea].
      apply Nat.eqb_eq in En, Ea, Eb. subst a b.
      destruct (IH (S j)) as (r' & Hr & Hn). exists r'. split.
      * rewrite dbl_run_S. cbn [app]. now rewrite <- Hr.
      * intros [|t] Ht; [now rewrite Nat.add_0_r|]. replace (j + S t)%nat with (S j + t)%nat by lia. apply Hn. lia.
    + exists ((a, b) :: r). split; [reflexivity|]. intros t Ht. lia.
Qed.

Lemma dec_loop_skip nr : forall run i r, dec_loop nr i (length run) (run ++ r) = dec_loop nr (i + length run) O r.
Proof.
  induction run as [|[a b] run IH]; intros i r.
  - cbn [length app]. now rewrite Nat.add_0_r.
  - cbn [length app dec_loop]. rewrite IH. f_equal. lia.
Qed.

(* ------------------------------------------------------------------ *)
(* Compile (Decompile p) = p                                           *)
(* ------------------------------------------------------------------ *)

Lemma add_ok (p : list op) (a b : nat) : (a <= length p)%nat -> (b <= length p)%nat ->
  add p (Z.of_nat a) (Z.of_nat b) = (p ++ [(a, b)], Ok (Z.of_nat (S (length p)))).
Proof.
  intros Ha Hb. unfold add, boundscheck.
  assert (E1 : (Z.of_nat a <? 0)%Z = false) by (apply Z.ltb_ge; lia).
  assert (E2 : (Z.of_nat b <? 0)%Z = false) by (apply Z.ltb_ge; lia).
  assert (E3 : (Z.of_nat a >? Z.of_nat (length p))%Z = false) by (rewrite Z.gtb_ltb; apply Z.ltb_ge; lia).
  assert (E4 : (Z.of_nat b >? Z.of_nat (length p))%Z = false) by (rewrite Z.gtb_ltb; apply Z.ltb_ge; lia).
  rewrite E1, E2, E3, E4. rewrite !Nat2Z.id. rewrite app_length. cbn [length]. do 3 f_equal. lia.
Qed.

Lemma shift_loop_spec : forall s (p : list op) (x : nat), (x <= length p)%nat ->
  shift_loop (S s) p (Z.of_nat x) =
    (p ++ (x, x) :: dbl_run (S (length p)) s, Ok (Z.of_nat (length p + S s))).
Proof.
  induction s as [|s IH]; intros p x Hx.
  - cbn [shift_loop]. unfold double. rewrite add_ok by assumption. cbn. do 3 f_equal. lia.
  - change (shift_loop (S (S s)) p (Z.of_nat x)) with
      (match double p (Z.of_nat x) with (p', Ok next) => shift_loop (S s) p' next | (p', e) => (p', e) end).
    unfold double. rewrite add_ok by assumption.
    rewrite IH by (rewrite app_length; cbn [length]; lia).
    rewrite app_length. cbn [length]. rewrite dbl_run_S, <- app_assoc. cbn [app].
    replace (length p + 1)%nat with (S (length p)) by lia. do 3 f_equal. lia.
Qed.

(* operands of the remaining operations exist: op t of [rest] is op i+t of the program *)
Definition wf_from (i : nat) (rest : list op) : Prop :=
  forall t a b, nth_error rest t = Some (a, b) -> (a <= i + t /\ b <= i + t)%nat.

Lemma wf_from_tail i o r : wf_from i (o :: r) -> wf_from (S i) r.
Proof. intros H t a b Ht. specialize (H (S t) a b Ht). lia. Qed.

Lemma wf_from_app i run r : wf_from i (run ++ r) -> wf_from (i + length run) r.
Proof.
  intros H t a b Ht. specialize (H (length run + t)%nat a b).
  rewrite nth_error_app2 in H by lia. replace (length run + t - length run)%nat with t in H by lia.
  specialize (H Ht). lia.
Qed.

Lemma wf_program_from p : wf_program p <-> wf_from 0 p.
Proof. unfold wf_program, wf_from. split; intros H k a b Hk; specialize (H k a b Hk); lia. Qed.

Lemma compile_dec_loop nr : forall n rest pre, (length rest <= n)%nat -> wf_from (length pre) rest ->
  compile_loop pre (dec_loop nr (length pre) O rest) = Ok (pre ++ rest).
Proof.
  induction n as [|n IH]; intros rest pre Hlen Hwf.
  - destruct rest; [|cbn in Hlen; lia]. cbn. now rewrite app_nil_r.
  - destruct rest as [|[a b] r]; [cbn; now rewrite app_nil_r|].
    destruct (Hwf O a b eq_refl) as [Ha Hb]. rewrite Nat.add_0_r in Ha, Hb.
    assert (Hwf' : wf_from (length (pre ++ [(a, b)])) r).
    { rewrite app_length. cbn [length]. replace (length pre + 1)%nat with (S (length pre)) by lia.
      eapply wf_from_tail; eauto. }
    cbn [dec_loop]. destruct (negb (a =? b)%nat) eqn:Eab.
    + cbn [compile_loop iopn iout call_of step zi index_operand oindex].
      rewrite add_ok by assumption. rewrite Z.eqb_refl.
      replace (S (length pre)) with (length (pre ++ [(a, b)])) by (rewrite app_length; cbn; lia).
      rewrite IH; [now rewrite <- app_assoc| cbn in Hlen; lia | exact Hwf'].
    + apply negb_false_iff, Nat.eqb_eq in Eab. subst b.
      destruct (run_len_spec nr r (S (length pre))) as (r' & Hr & _).
      set (m := run_len nr (S (length pre)) r) in *.
      destruct (S m =? 1)%nat eqn:Em.
      * cbn [compile_loop iopn iout call_of step zi index_operand oindex]. unfold double.
        rewrite add_ok by assumption. rewrite Z.eqb_refl.
        replace (S (length pre)) with (length (pre ++ [(a, a)])) by (rewrite app_length; cbn; lia).
        rewrite IH; [now rewrite <- app_assoc| cbn in Hlen; lia | exact Hwf'].
      * cbn [compile_loop iopn iout call_of step zi index_operand oindex]. unfold shift.
        rewrite Nat2N.id. rewrite shift_loop_spec by assumption. rewrite Z.eqb_refl.
        replace (S m - 1)%nat with (length (dbl_run (S (length pre)) m)) by (rewrite dbl_run_length; lia).
        rewrite Hr at 1. rewrite dec_loop_skip. rewrite dbl_run_length.
        replace (S (length pre) + m)%nat with (length (pre ++ (a, a) :: dbl_run (S (length pre)) m))
          by (rewrite app_length; cbn [length]; rewrite dbl_run_length; lia).
        rewrite IH.
        -- rewrite <- app_assoc. cbn [app]. now rewrite <- Hr.
        -- assert (length r = (m + length r')%nat) by (rewrite Hr at 1; rewrite app_length, dbl_run_length; lia).
           cbn [length] in Hlen. lia.
        -- rewrite app_length. cbn [length]. rewrite dbl_run_length.
           replace (length pre + S m)%nat with (S (length pre) + length (dbl_run (S (length pre)) m))%nat
             by (rewrite dbl_run_length; lia).
           apply wf_from_app. rewrite <- Hr. eapply wf_from_tail; eauto.
Qed.

(* Decompile succeeds on every program with in-range operands, and pass.Compile of the
   result is the program itself, operand order included *)
Theorem decompile_expand p : wf_program p -> exists q, decompile p = Ok q /\ compile q = Ok p.
Proof.
  intros Hwf. destruct (read_counts_spec p Hwf) as (nr & E & _ & _).
  unfold decompile. rewrite E. cbn [obind]. eexists. split; [reflexivity|].
  unfold compile. apply (compile_dec_loop nr (length p) p []); [lia|]. now apply wf_program_from.
Qed.

(* ------------------------------------------------------------------ *)
(* no dangling inputs                                                  *)
(* ------------------------------------------------------------------ *)

Lemma existsb_Zeqb x l : existsb (Z.eqb x) l = true <-> In x l.
Proof.
  rewrite existsb_exists. split.
  - intros (y & Hy & E). apply Z.eqb_eq in E. now subst.
  - intros H. exists x. split; [assumption|apply Z.eqb_refl].
Qed.

(* numreads[j] = 1 and p[j] = (j,j): nothing else reads j (relative to the suffix at i) *)
Definition run_exclusive (nr : list nat) (i : nat) (rest : list op) : Prop :=
  forall t, nth_error rest t = Some ((i + t)%nat, (i + t)%nat) -> nth (i + t) nr O = 1%nat ->
  forall t' o, t' <> t -> nth_error rest t' = Some o -> uses o (i + t) = false.

Lemma run_exclusive_tail nr i o r : run_exclusive nr i (o :: r) -> run_exclusive nr (S i) r.
Proof.
  intros H t Ht Hn t' o' Hne Ht'. replace (S i + t)%nat with (i + S t)%nat in * by lia.
  apply (H (S t) Ht Hn (S t') o'); [lia|exact Ht'].
Qed.

Lemma run_exclusive_app nr i run r : run_exclusive nr i (run ++ r) -> run_exclusive nr (i + length run) r.
Proof.
  revert i. induction run as [|o run IH]; intros i H.
  - cbn [length]. now rewrite Nat.add_0_r.
  - cbn [length]. replace (i + S (length run))%nat with (S i + length run)%nat by lia.
    apply IH. eapply run_exclusive_tail. exact H.
Qed.

Lemma no_dangling_dec_loop nr : forall n rest i outs, (length rest <= n)%nat ->
  wf_from i rest -> run_exclusive nr i rest ->
  (forall x, (x <= i)%nat -> In (Z.of_nat x) outs \/ forall o, In o rest -> uses o x = false) ->
  check_dangling_loop outs (dec_loop nr i O rest) = Ok tt.
Proof.
  induction n as [|n IH]; intros rest i outs Hlen Hwf Hex Hout.
  - destruct rest; [reflexivity|cbn in Hlen; lia].
  - destruct rest as [|[a b] r]; [reflexivity|].
    destruct (Hwf O a b eq_refl) as [Ha Hb]. rewrite Nat.add_0_r in Ha, Hb.
    assert (Hina : In (Z.of_nat a) outs).
    { destruct (Hout a Ha) as [H|H]; [exact H|]. specialize (H (a, b) (or_introl eq_refl)).
      unfold uses in H. cbn [fst] in H. rewrite Nat.eqb_refl in H. discriminate. }
    assert (Hinb : In (Z.of_nat b) outs).
    { destruct (Hout b Hb) as [H|H]; [exact H|]. specialize (H (a, b) (or_introl eq_refl)).
      unfold uses in H. cbn [fst snd] in H. rewrite Nat.eqb_refl, orb_true_r in H. discriminate. }
    (* the invariant after a step that outputs S i *)
    assert (Hnext : forall x, (x <= S i)%nat ->
              In (Z.of_nat x) (Z.of_nat (S i) :: outs) \/ forall o, In o r -> uses o x = false).
    { intros x Hx. destruct (Nat.eq_dec x (S i)) as [->|Hne]; [left; now left|].
      destruct (Hout x) as [H|H]; [lia|left; now right|right; intros o Ho; apply H; now right]. }
    cbn [dec_loop]. destruct (negb (a =? b)%nat) eqn:Eab.
    + cbn [check_dangling_loop input_indexes iopn inputs map oindex zi index_operand forallb iout].
      rewrite (proj2 (existsb_Zeqb _ _) Hina), (proj2 (existsb_Zeqb _ _) Hinb). cbn [andb].
      apply IH; [cbn in Hlen; lia|eapply wf_from_tail; eauto|eapply run_exclusive_tail; eauto|exact Hnext].
    + apply negb_false_iff, Nat.eqb_eq in Eab. subst b.
      destruct (run_len_spec nr r (S i)) as (r' & Hr & Hones).
      set (m := run_len nr (S i) r) in *.
      destruct (S m =? 1)%nat eqn:Em.
      * cbn [check_dangling_loop input_indexes iopn inputs map oindex zi index_operand forallb iout].
        rewrite (proj2 (existsb_Zeqb _ _) Hina). cbn [andb].
        apply IH; [cbn in Hlen; lia|eapply wf_from_tail; eauto|eapply run_exclusive_tail; eauto|exact Hnext].
      * cbn [check_dangling_loop input_indexes iopn inputs map oindex zi index_operand forallb iout].
        rewrite (proj2 (existsb_Zeqb _ _) Hina). cbn [andb].
        replace (S m - 1)%nat with (length (dbl_run (S i) m)) by (rewrite dbl_run_length; lia).
        rewrite Hr at 1. rewrite dec_loop_skip. rewrite dbl_run_length.
        assert (Hlr : length r = (m + length r')%nat) by (rewrite Hr at 1; rewrite app_length, dbl_run_length; lia).
        apply IH.
        -- cbn [length] in Hlen. lia.
        -- replace (S i + m)%nat with (S i + length (dbl_run (S i) m))%nat by (rewrite dbl_run_length; lia).
           apply wf_from_app. rewrite <- Hr. eapply wf_from_tail; eauto.
        -- replace (S i + m)%nat with (S i + length (dbl_run (S i) m))%nat by (rewrite dbl_run_length; lia).
           apply run_exclusive_app. rewrite <- Hr. eapply run_exclusive_tail; eauto.
        -- intros x Hx.
           destruct (Nat.eq_dec x (S i + m)) as [->|Hne]; [left; left; f_equal; lia|].
           destruct (Nat.le_gt_cases x i) as [Hle|Hgt].
           ++ destruct (Hout x Hle) as [H|H]; [left; now right|right].
              intros o Ho. apply H. right. rewrite Hr. apply in_or_app. now right.
           ++ (* x = S i + t is an intermediate of the run: read once, by the next doubling *)
              right. intros o Ho. apply In_nth_error in Ho as [t' Ht'].
              set (t := (x - S i)%nat). assert (Htm : (t < m)%nat) by (unfold t; lia).
              assert (Ex : x = (i + S t)%nat) by (unfold t; lia).
              rewrite Ex. apply (Hex (S t)) with (t' := S (m + t')).
              ** cbn [nth_error]. rewrite Hr. rewrite nth_error_app1 by (rewrite dbl_run_length; lia).
                 rewrite dbl_run_nth by assumption. do 2 f_equal; lia.
              ** replace (i + S t)%nat with (S i + t)%nat by lia. now apply Hones.
              ** lia.
              ** cbn [nth_error]. rewrite Hr. rewrite nth_error_app2 by (rewrite dbl_run_length; lia).
                 rewrite dbl_run_length. replace (m + t' - m)%nat with t' by lia. exact Ht'.
Qed.

Theorem decompile_no_dangling p : wf_program p -> exists q, decompile p = Ok q /\ check_dangling q = Ok tt.
Proof.
  intros Hwf. destruct (read_counts_spec p Hwf) as (nr & E & _ & Hn).
  unfold decompile. rewrite E. cbn [obind]. eexists. split; [reflexivity|].
  unfold check_dangling. apply (no_dangling_dec_loop nr (length p)); [lia|now apply wf_program_from| |].
  - intros t Ht H1 t' o Hne Ht'. cbn [Nat.add] in *. rewrite Hn in H1.
    apply (reads_one_unique p t t (t, t) H1 Ht) with (t' := t'); auto.
    unfold uses. cbn [fst]. now rewrite Nat.eqb_refl.
  - intros x Hx. assert (x = O) by lia. subst x. left. now left.
Qed.
