(* Lemmas about model/Metavars.v (C20). *)
From Coq Require Import String.
From Coq Require Import List NArith ZArith Bool Lia ZifyBool ZifyNat ZifyN.
From AV Require Import model.Proto model.Metavars.
Import ListNotations.
Open Scope N_scope.
Ltac Zify.zify_post_hook ::= Z.div_mod_to_equations.

(* ------------------------------------------------------------------ *)
(* strings                                                             *)

Lemma str_eqb_refl : forall a, str_eqb a a = true.
Proof. induction a as [|x a IH]; cbn [str_eqb]; [reflexivity|]. rewrite N.eqb_refl, IH. reflexivity. Qed.

Lemma str_eqb_eq : forall a b, str_eqb a b = true <-> a = b.
Proof.
  induction a as [|x a IH]; destruct b as [|y b]; cbn [str_eqb]; split; intro H;
    try reflexivity; try discriminate.
  - apply andb_true_iff in H. destruct H as [H1 H2]. apply N.eqb_eq in H1. apply IH in H2. congruence.
  - injection H as -> ->. rewrite N.eqb_refl. cbn [andb]. apply str_eqb_refl.
Qed.

Lemma str_eqb_neq : forall a b, str_eqb a b = false <-> a <> b.
Proof.
  intros a b. split.
  - intros H E. apply str_eqb_eq in E. congruence.
  - intro H. destruct (str_eqb a b) eqn:E; [|reflexivity]. apply str_eqb_eq in E. contradiction.
Qed.

(* ------------------------------------------------------------------ *)
(* the ordered map                                                     *)

Definition names (f : file) : list (list N) := map p_name (f_props f).

(* the abstract ordered map: an association list with first-match lookup *)
Fixpoint alookup (n : list N) (l : list (list N * list N)) : option (list N) :=
  match l with
  | [] => None
  | (k, v) :: r => if str_eqb k n then Some v else alookup n r
  end.
Definition abs (f : file) : list (list N * list N) := map (fun p => (p_name p, p_value p)) (f_props f).

Lemma get_prop_none : forall n ps, get_prop n ps = None <-> ~ In n (map p_name ps).
Proof.
  induction ps as [|p ps IH]; cbn [get_prop map In]; [tauto|].
  destruct (str_eqb (p_name p) n) eqn:E.
  - apply str_eqb_eq in E. split; [discriminate|]. intro H. exfalso. apply H. left. exact E.
  - apply str_eqb_neq in E. rewrite IH. tauto.
Qed.

Lemma get_prop_some : forall n ps p, get_prop n ps = Some p ->
  exists l1 l2, ps = l1 ++ p :: l2 /\ p_name p = n /\ ~ In n (map p_name l1).
Proof.
  induction ps as [|q ps IH]; cbn [get_prop]; intros p H; [discriminate|].
  destruct (str_eqb (p_name q) n) eqn:E.
  - injection H as <-. apply str_eqb_eq in E. exists [], ps. cbn. tauto.
  - apply str_eqb_neq in E. destruct (IH p H) as (l1 & l2 & -> & Hn & Hni).
    exists (q :: l1), l2. cbn [app map In]. repeat split; [exact Hn|]. tauto.
Qed.

Lemma file_get_alookup : forall n f, file_get n f = alookup n (abs f).
Proof.
  intros n [pkg ps]. unfold file_get, abs. cbn [f_props].
  induction ps as [|p ps IH]; cbn [get_prop map alookup option_map]; [reflexivity|].
  destruct (str_eqb (p_name p) n); [reflexivity|exact IH].
Qed.

Lemma file_get_none : forall n f, file_get n f = None <-> ~ In n (names f).
Proof.
  intros n f. unfold file_get, names. rewrite <- get_prop_none.
  destruct (get_prop n (f_props f)); cbn [option_map]; split; congruence.
Qed.

Lemma file_add_spec : forall p f,
  (In (p_name p) (names f) -> file_add p f = Err $"exists") /\
  (~ In (p_name p) (names f) -> file_add p f = Ok (mkFile (f_pkg f) (f_props f ++ [p]))).
Proof.
  intros p f. unfold file_add, names.
  destruct (get_prop (p_name p) (f_props f)) eqn:E.
  - split; [reflexivity|]. intro H. apply get_prop_none in H. congruence.
  - split; [|reflexivity]. intro H. apply get_prop_none in E. contradiction.
Qed.

Lemma get_prop_app : forall n l1 l2,
  get_prop n (l1 ++ l2) = match get_prop n l1 with Some p => Some p | None => get_prop n l2 end.
Proof.
  induction l1 as [|q l1 IH]; intro l2; cbn [app get_prop]; [reflexivity|].
  destruct (str_eqb (p_name q) n); [reflexivity|apply IH].
Qed.

Lemma file_get_add : forall p f n,
  ~ In (p_name p) (names f) ->
  file_get n (mkFile (f_pkg f) (f_props f ++ [p])) =
    match file_get n f with Some v => Some v | None => if str_eqb (p_name p) n then Some (p_value p) else None end.
Proof.
  intros p f n _. unfold file_get. cbn [f_props]. rewrite get_prop_app.
  destruct (get_prop n (f_props f)); cbn [option_map get_prop]; [reflexivity|].
  destruct (str_eqb (p_name p) n); reflexivity.
Qed.

Lemma set_prop_none : forall n v ps, set_prop n v ps = None <-> ~ In n (map p_name ps).
Proof.
  induction ps as [|p ps IH]; cbn [set_prop map In]; [tauto|].
  destruct (str_eqb (p_name p) n) eqn:E.
  - apply str_eqb_eq in E. split; [discriminate|]. intro H. exfalso. apply H. left. exact E.
  - apply str_eqb_neq in E. destruct (set_prop n v ps); cbn [option_map].
    + split; [discriminate|]. intro H. exfalso. assert (~ In n (map p_name ps)) as H1 by tauto. apply IH in H1. discriminate.
    + split; [|reflexivity]. intros _. assert (~ In n (map p_name ps)) by (apply IH; reflexivity). tauto.
Qed.

Lemma set_prop_some : forall n v ps ps', set_prop n v ps = Some ps' ->
  exists l1 q l2, ps = l1 ++ q :: l2 /\ ps' = l1 ++ mkProp (p_name q) (p_doc q) v :: l2
                  /\ p_name q = n /\ ~ In n (map p_name l1).
Proof.
  induction ps as [|p ps IH]; cbn [set_prop]; intros ps' H; [discriminate|].
  destruct (str_eqb (p_name p) n) eqn:E.
  - injection H as <-. apply str_eqb_eq in E. exists [], p, ps. cbn. tauto.
  - apply str_eqb_neq in E. destruct (set_prop n v ps) as [qs|] eqn:E2; cbn [option_map] in H; [|discriminate].
    injection H as <-. destruct (IH qs eq_refl) as (l1 & q & l2 & -> & -> & Hn & Hni).
    exists (p :: l1), q, l2. cbn [app map In]. repeat split; [exact Hn|]. tauto.
Qed.

Lemma file_set_spec : forall n v f,
  (~ In n (names f) -> file_set n v f = Err $"unknown") /\
  (In n (names f) -> exists l1 q l2,
      f_props f = l1 ++ q :: l2 /\ p_name q = n /\ ~ In n (map p_name l1) /\
      file_set n v f = Ok (mkFile (f_pkg f) (l1 ++ mkProp n (p_doc q) v :: l2))).
Proof.
  intros n v f. unfold file_set, names.
  destruct (set_prop n v (f_props f)) as [ps'|] eqn:E.
  - split.
    + intro H. apply (set_prop_none n v) in H. congruence.
    + intros _. destruct (set_prop_some _ _ _ _ E) as (l1 & q & l2 & H1 & -> & Hn & Hni).
      exists l1, q, l2. rewrite Hn. tauto.
  - split; [reflexivity|]. intro H. apply set_prop_none in E. contradiction.
Qed.

(* lookups after a successful Set *)
Lemma file_get_set : forall n v pkg l1 q l2 m,
  p_name q = n -> ~ In n (map p_name l1) ->
  file_get m (mkFile pkg (l1 ++ mkProp n (p_doc q) v :: l2)) =
    if str_eqb n m then Some v else file_get m (mkFile pkg (l1 ++ q :: l2)).
Proof.
  intros n v pkg l1 q l2 m Hq Hni. unfold file_get. cbn [f_props]. rewrite !get_prop_app.
  destruct (str_eqb n m) eqn:E.
  - apply str_eqb_eq in E. subst m. apply get_prop_none in Hni. rewrite Hni.
    cbn [get_prop p_name]. rewrite str_eqb_refl. reflexivity.
  - destruct (get_prop m l1); [reflexivity|]. cbn [get_prop p_name]. rewrite Hq, E. reflexivity.
Qed.

(* ------------------------------------------------------------------ *)
(* hexadecimal digits                                                  *)

Lemma unhex_hexchar : forall d, d < 16 -> unhex (hexchar d) = Some d.
Proof.
  intros d H. unfold unhex, hexchar. destruct (d <? 10) eqn:E.
  - assert (((48 <=? 48 + d) && (48 + d <=? 57)) = true) as -> by lia. f_equal. lia.
  - assert (((48 <=? 87 + d) && (87 + d <=? 57)) = false) as -> by lia.
    assert (((97 <=? 87 + d) && (87 + d <=? 102)) = true) as -> by lia. f_equal. lia.
Qed.

Lemma read_hex_digits : forall k r acc rest,
  read_hex k acc (hex_digits k r ++ rest) = Some (acc * 16 ^ N.of_nat k + r mod 16 ^ N.of_nat k).
Proof.
  induction k as [|k IH]; intros r acc rest.
  - cbn [read_hex hex_digits app]. f_equal. change (16 ^ N.of_nat 0) with 1. rewrite N.mod_1_r. lia.
  - cbn [read_hex hex_digits app].
    rewrite unhex_hexchar by (apply N.mod_upper_bound; lia).
    rewrite IH. f_equal.
    rewrite Nat2N.inj_succ, N.pow_succ_r'.
    assert (16 ^ N.of_nat k <> 0) as Hp by (apply N.pow_nonzero; lia).
    rewrite (N.mul_comm 16 (16 ^ N.of_nat k)).
    rewrite (N.mod_mul_r r (16 ^ N.of_nat k) 16) by (assumption || lia).
    lia.
Qed.

Lemma read_hex_small : forall k r rest, r < 16 ^ N.of_nat k ->
  read_hex k 0 (hex_digits k r ++ rest) = Some r.
Proof. intros. rewrite read_hex_digits. f_equal. rewrite N.mod_small by assumption. lia. Qed.

Lemma hex_digits_length : forall k r, length (hex_digits k r) = k.
Proof. induction k; intro r; cbn [hex_digits length]; [reflexivity|]. f_equal. apply IHk. Qed.

(* ------------------------------------------------------------------ *)
(* UTF-8: encode after decode                                          *)

Lemma enc2 : forall b0 b1, 194 <= b0 <= 223 -> 128 <= b1 <= 191 ->
  let r := (b0 - 192) * 64 + (b1 - 128) in
  encode_rune r = [b0; b1] /\ valid_rune r = true /\ 128 <= r < 65536.
Proof.
  intros b0 b1 H0 H1 r. subst r. unfold encode_rune, valid_rune.
  set (r := (b0 - 192) * 64 + (b1 - 128)).
  assert (128 <= r < 2048) as Hr by (subst r; lia).
  assert ((r <? 128) = false) as -> by lia.
  assert ((r <? 2048) = true) as -> by lia.
  split; [|split; lia].
  assert (r / 64 = b0 - 192 /\ r mod 64 = b1 - 128) as [-> ->] by (subst r; lia).
  f_equal; [lia|f_equal; lia].
Qed.

Lemma enc3 : forall b0 b1 b2, 224 <= b0 <= 239 ->
  (if b0 =? 224 then 160 else 128) <= b1 <= (if b0 =? 237 then 159 else 191) -> 128 <= b2 <= 191 ->
  let r := (b0 - 224) * 4096 + (b1 - 128) * 64 + (b2 - 128) in
  encode_rune r = [b0; b1; b2] /\ valid_rune r = true /\ 128 <= r < 65536.
Proof.
  intros b0 b1 b2 H0 H1 H2 r. subst r. unfold encode_rune, valid_rune.
  set (r := (b0 - 224) * 4096 + (b1 - 128) * 64 + (b2 - 128)).
  assert (2048 <= r < 65536 /\ (r < 55296 \/ 57343 < r)) as Hr.
  { subst r. destruct (b0 =? 224) eqn:E1; destruct (b0 =? 237) eqn:E2; lia. }
  assert ((r <? 128) = false) as -> by lia.
  assert ((r <? 2048) = false) as -> by lia.
  assert (((r <? 55296) || ((57343 <? r) && (r <=? 1114111))) = true) as -> by lia.
  cbn [negb]. assert ((r <? 65536) = true) as -> by lia.
  split; [|split; [reflexivity|lia]].
  assert (128 <= b1 <= 191) as H1' by (destruct (b0 =? 224); destruct (b0 =? 237); lia).
  assert (r / 4096 = b0 - 224 /\ (r / 64) mod 64 = b1 - 128 /\ r mod 64 = b2 - 128) as (-> & -> & ->) by (subst r; lia).
  repeat f_equal; lia.
Qed.

Lemma enc4 : forall b0 b1 b2 b3, 240 <= b0 <= 244 ->
  (if b0 =? 240 then 144 else 128) <= b1 <= (if b0 =? 244 then 143 else 191) ->
  128 <= b2 <= 191 -> 128 <= b3 <= 191 ->
  let r := (b0 - 240) * 262144 + (b1 - 128) * 4096 + (b2 - 128) * 64 + (b3 - 128) in
  encode_rune r = [b0; b1; b2; b3] /\ valid_rune r = true /\ 65536 <= r.
Proof.
  intros b0 b1 b2 b3 H0 H1 H2 H3 r. subst r. unfold encode_rune, valid_rune.
  set (r := (b0 - 240) * 262144 + (b1 - 128) * 4096 + (b2 - 128) * 64 + (b3 - 128)).
  assert (65536 <= r <= 1114111) as Hr.
  { subst r. destruct (b0 =? 240) eqn:E1; destruct (b0 =? 244) eqn:E2; lia. }
  assert ((r <? 128) = false) as -> by lia.
  assert ((r <? 2048) = false) as -> by lia.
  assert (((r <? 55296) || ((57343 <? r) && (r <=? 1114111))) = true) as -> by lia.
  cbn [negb]. assert ((r <? 65536) = false) as -> by lia.
  split; [|split; [reflexivity|lia]].
  assert (128 <= b1 <= 191) as H1' by (destruct (b0 =? 240); destruct (b0 =? 244); lia).
  assert (r / 262144 = b0 - 240 /\ (r / 4096) mod 64 = b1 - 128 /\ (r / 64) mod 64 = b2 - 128 /\ r mod 64 = b3 - 128)
    as (-> & -> & -> & ->) by (subst r; lia).
  repeat f_equal; lia.
Qed.

Definition good_decode (s : list N) (r : N) (w : nat) : Prop :=
  (1 <= w)%nat /\ encode_rune r = firstn w s /\ length (firstn w s) = w /\ valid_rune r = true /\
  (forall t, decode_rune (firstn w s ++ t) = (r, w)) /\
  ((w = 1%nat /\ r < 128 /\ firstn w s = [r]) \/ ((1 < w)%nat /\ 128 <= r /\ 128 <= hd 0 s)).

Lemma decode_spec : forall s, s <> [] ->
  (is_bad (decode_rune s) = true /\ snd (decode_rune s) = 1%nat) \/
  (is_bad (decode_rune s) = false /\ good_decode s (fst (decode_rune s)) (snd (decode_rune s))).
Proof.
  intros s Hs. destruct s as [|b0 s]; [congruence|]. clear Hs.
  unfold decode_rune.
  destruct (b0 <? 128) eqn:E0.
  { right. cbn [fst snd]. split.
    - unfold is_bad. cbn [fst snd Nat.eqb andb]. unfold rune_error. lia.
    - unfold good_decode. cbn [firstn length hd app].
      split; [lia|]. split; [unfold encode_rune; rewrite E0; reflexivity|].
      split; [reflexivity|]. split; [unfold valid_rune; lia|].
      split; [intro t; unfold decode_rune; rewrite E0; reflexivity|].
      left. split; [reflexivity|]. split; [lia|reflexivity]. }
  destruct ((194 <=? b0) && (b0 <=? 223)) eqn:E1.
  { destruct s as [|b1 s]; [left; split; reflexivity|].
    destruct (is_cont b1) eqn:C1; [|left; split; reflexivity].
    right. cbn [fst snd]. split; [reflexivity|].
    unfold is_cont in C1.
    destruct (enc2 b0 b1 ltac:(lia) ltac:(lia)) as (He & Hv & Hr).
    unfold good_decode. cbn [firstn length hd app].
    split; [lia|]. split; [exact He|]. split; [reflexivity|]. split; [exact Hv|].
    split; [intro t; unfold decode_rune; rewrite E0, E1; unfold is_cont; rewrite C1; reflexivity|].
    right. split; [lia|]. split; lia. }
  destruct ((224 <=? b0) && (b0 <=? 239)) eqn:E2.
  { destruct s as [|b1 [|b2 s]]; try (left; split; reflexivity).
    match goal with |- context [if ?c then _ else _] => destruct c eqn:C end; [|left; split; reflexivity].
    right. cbn [fst snd]. split; [reflexivity|].
    apply andb_true_iff in C. destruct C as [C C2]. apply andb_true_iff in C. destruct C as [Ca Cb].
    unfold is_cont in C2.
    destruct (enc3 b0 b1 b2 ltac:(lia) ltac:(lia) ltac:(lia)) as (He & Hv & Hr).
    unfold good_decode. cbn [firstn length hd app].
    split; [lia|]. split; [exact He|]. split; [reflexivity|]. split; [exact Hv|].
    split; [intro t; unfold decode_rune; rewrite E0, E1, E2, Ca, Cb; unfold is_cont; rewrite C2; reflexivity|].
    right. split; [lia|]. split; lia. }
  destruct ((240 <=? b0) && (b0 <=? 244)) eqn:E3.
  { destruct s as [|b1 [|b2 [|b3 s]]]; try (left; split; reflexivity).
    match goal with |- context [if ?c then _ else _] => destruct c eqn:C end; [|left; split; reflexivity].
    right. cbn [fst snd]. split; [reflexivity|].
    apply andb_true_iff in C. destruct C as [C C3]. apply andb_true_iff in C. destruct C as [C C2].
    apply andb_true_iff in C. destruct C as [Ca Cb].
    unfold is_cont in C2, C3.
    destruct (enc4 b0 b1 b2 b3 ltac:(lia) ltac:(lia) ltac:(lia) ltac:(lia)) as (He & Hv & Hr).
    unfold good_decode. cbn [firstn length hd app].
    split; [lia|]. split; [exact He|]. split; [reflexivity|]. split; [exact Hv|].
    split; [intro t; unfold decode_rune; rewrite E0, E1, E2, E3, Ca, Cb; unfold is_cont; rewrite C2, C3; reflexivity|].
    right. split; [lia|]. split; lia. }
  left. split; reflexivity.
Qed.

(* ------------------------------------------------------------------ *)
(* Unquote after Quote                                                 *)

Definition bytes (s : list N) : Prop := Forall (fun b => b < 256) s.

Lemma unq_skip : forall a k t, length a = k -> unq_loop k (a ++ t) = unq_loop 0 t.
Proof.
  induction a as [|x a IH]; intros k t H; cbn [length] in H; subst k; [reflexivity|].
  cbn [app unq_loop]. apply IH. reflexivity.
Qed.

Lemma quote_body_skip : forall cls s k, quote_body cls k s = quote_body cls 0 (skipn k s).
Proof.
  induction s as [|x s IH]; intro k; destruct k as [|k]; try reflexivity.
  cbn [quote_body skipn]. apply IH.
Qed.

(* unquote_char on each escape form *)
Lemma uqc_x : forall r2, unquote_char (92 :: 120 :: r2) =
  match read_hex 2 0 r2 with Some v => Some ([v], 4%nat) | None => None end.
Proof. reflexivity. Qed.
Lemma uqc_u : forall r2, unquote_char (92 :: 117 :: r2) =
  match read_hex 4 0 r2 with
  | Some v => if valid_rune v then Some (encode_rune v, 6%nat) else None
  | None => None end.
Proof. reflexivity. Qed.
Lemma uqc_U : forall r2, unquote_char (92 :: 85 :: r2) =
  match read_hex 8 0 r2 with
  | Some v => if valid_rune v then Some (encode_rune v, 10%nat) else None
  | None => None end.
Proof. reflexivity. Qed.
Lemma uqc_ascii : forall c r, c < 128 -> c <> 34 -> c <> 92 -> unquote_char (c :: r) = Some ([c], 1%nat).
Proof.
  intros c r H1 H2 H3. unfold unquote_char.
  assert ((c =? 34) = false) as -> by lia. assert ((128 <=? c) = false) as -> by lia.
  assert ((c =? 92) = false) as -> by lia. reflexivity.
Qed.
Lemma uqc_multi : forall c r, 128 <= c ->
  unquote_char (c :: r) = Some (encode_rune (fst (decode_rune (c :: r))), snd (decode_rune (c :: r))).
Proof.
  intros c r H. unfold unquote_char.
  assert ((c =? 34) = false) as -> by lia. assert ((128 <=? c) = true) as -> by lia. reflexivity.
Qed.

Lemma unit_roundtrip : forall cls s t, bytes s -> s <> [] ->
  exists c u', quote_unit cls s = c :: u' /\ c <> 34 /\ c <> 10 /\
     unquote_char (c :: u' ++ t) = Some (firstn (snd (decode_rune s)) s, S (length u')) /\
     (1 <= snd (decode_rune s))%nat.
Proof.
  intros cls s t Hb Hs. unfold quote_unit.
  destruct (decode_spec s Hs) as [[Hbad Hw]|[Hbad Hg]]; rewrite Hbad.
  - (* invalid byte *)
    destruct s as [|b0 s]; [congruence|]. cbn [hd]. rewrite Hw. cbn [firstn].
    assert (b0 < 256) as Hb0 by (inversion Hb; assumption).
    exists 92, (120 :: hex_digits 2 b0). split; [reflexivity|]. split; [lia|]. split; [lia|]. split; [|lia].
    cbn [app]. rewrite uqc_x, read_hex_small by (cbn; lia). cbn [length]. rewrite hex_digits_length. reflexivity.
  - set (r := fst (decode_rune s)) in *. set (w := snd (decode_rune s)) in *.
    destruct Hg as (Hw1 & Henc & Hlen & Hval & Hdec & Hcase).
    assert (forall x, r = x -> x < 128 -> firstn w s = [x] /\ w = 1%nat) as Hsmall.
    { intros x <- Hx. destruct Hcase as [(-> & _ & Hf)|(_ & Hr & _)]; [tauto|lia]. }
    unfold escape_rune.
    destruct ((r =? 34) || (r =? 92)) eqn:E1.
    { assert (r < 128) as Hr by lia. destruct (Hsmall r eq_refl Hr) as [Hf _]. rewrite Hf.
      exists 92, [r]. split; [reflexivity|]. split; [lia|]. split; [lia|]. split; [|lia].
      cbn [app length]. destruct (r =? 34) eqn:E34.
      - assert (r = 34) as -> by lia. reflexivity.
      - assert (r = 92) as -> by lia. reflexivity. }
    destruct (is_print cls r) eqn:E2.
    { rewrite Henc. destruct Hcase as [(Hw & Hr & Hf)|(Hw & Hr & Hhd)].
      - rewrite Hf. exists r, []. unfold is_print in E2.
        assert ((r <? 128) = true) as Hlt by lia. rewrite Hlt in E2.
        split; [reflexivity|]. split; [lia|]. split; [lia|]. split; [|lia].
        cbn [app length]. apply uqc_ascii; lia.
      - destruct s as [|b0 s']; [congruence|]. cbn [hd] in Hhd.
        destruct w as [|w']; [lia|]. cbn [firstn].
        exists b0, (firstn w' s'). split; [reflexivity|]. split; [lia|]. split; [lia|]. split; [|lia].
        change (b0 :: firstn w' s' ++ t) with (firstn (S w') (b0 :: s') ++ t).
        cbn [firstn length] in Hlen. injection Hlen as Hlen. rewrite Hlen.
        cbn [firstn app]. rewrite uqc_multi by exact Hhd.
        change (b0 :: firstn w' s' ++ t) with (firstn (S w') (b0 :: s') ++ t).
        rewrite Hdec. cbn [fst snd]. rewrite Henc. reflexivity. }
    (* the named escapes *)
    assert (forall x e, r = x -> x < 128 -> unquote_char (92 :: e :: t) = Some ([x], 2%nat) -> e <> 34 ->
      exists c u', [92; e] = c :: u' /\ c <> 34 /\ c <> 10 /\
        unquote_char (c :: u' ++ t) = Some (firstn w s, S (length u')) /\ (1 <= w)%nat) as Hnamed.
    { intros x e Hx Hlt Hu He. destruct (Hsmall x Hx Hlt) as [Hf _]. rewrite Hf.
      exists 92, [e]. split; [reflexivity|]. split; [lia|]. split; [lia|]. split; [exact Hu|lia]. }
    destruct (r =? 7) eqn:E7. { apply (Hnamed 7 97); try lia; reflexivity. }
    destruct (r =? 8) eqn:E8. { apply (Hnamed 8 98); try lia; reflexivity. }
    destruct (r =? 12) eqn:E12. { apply (Hnamed 12 102); try lia; reflexivity. }
    destruct (r =? 10) eqn:E10. { apply (Hnamed 10 110); try lia; reflexivity. }
    destruct (r =? 13) eqn:E13. { apply (Hnamed 13 114); try lia; reflexivity. }
    destruct (r =? 9) eqn:E9. { apply (Hnamed 9 116); try lia; reflexivity. }
    destruct (r =? 11) eqn:E11. { apply (Hnamed 11 118); try lia; reflexivity. }
    destruct ((r <? 32) || (r =? 127)) eqn:E3.
    { assert (r < 128) as Hr by lia. destruct (Hsmall r eq_refl Hr) as [Hf _]. rewrite Hf.
      exists 92, (120 :: hex_digits 2 r). split; [reflexivity|]. split; [lia|]. split; [lia|]. split; [|lia].
      cbn [app]. rewrite uqc_x, read_hex_small by (cbn; lia). cbn [length]. rewrite hex_digits_length. reflexivity. }
    rewrite Hval. cbn [negb].
    destruct (r <? 65536) eqn:E4.
    { exists 92, (117 :: hex_digits 4 r). split; [reflexivity|]. split; [lia|]. split; [lia|]. split; [|lia].
      cbn [app]. rewrite uqc_u, read_hex_small by (cbn; lia). cbn [length]. rewrite Hval, Henc, hex_digits_length. reflexivity. }
    exists 92, (85 :: hex_digits 8 r). split; [reflexivity|]. split; [lia|]. split; [lia|]. split; [|lia].
    assert (r < 16 ^ N.of_nat 8) as Hr8 by (unfold valid_rune in Hval; cbn; lia).
    cbn [app]. rewrite uqc_U, read_hex_small by exact Hr8. cbn [length]. rewrite Hval, Henc, hex_digits_length. reflexivity.
Qed.

Lemma bytes_skipn : forall k s, bytes s -> bytes (skipn k s).
Proof.
  induction k as [|k IH]; intros s H; [exact H|]. destruct s as [|x s]; [exact H|].
  cbn [skipn]. apply IH. inversion H; assumption.
Qed.

(* the unquote loop run on the quoted body recovers the string and stops at the closing quote *)
Lemma unq_loop_quote_body : forall cls n s rem, (length s <= n)%nat -> bytes s ->
  unq_loop 0 (quote_body cls 0 s ++ 34 :: rem) = Some (s, rem).
Proof.
  induction n as [|n IH]; intros s rem Hn Hb.
  - destruct s; [reflexivity|cbn [length] in Hn; lia].
  - destruct s as [|b0 s']; [reflexivity|].
    set (s := b0 :: s') in *.
    assert (s <> []) as Hs by (subst s; discriminate).
    destruct (unit_roundtrip cls s (quote_body cls 0 (skipn (snd (decode_rune s)) s) ++ 34 :: rem) Hb Hs)
      as (c & u' & Hu & Hc34 & Hc10 & Huq & Hw).
    set (w := snd (decode_rune s)) in *.
    assert (quote_body cls 0 s = quote_unit cls s ++ quote_body cls 0 (skipn w s)) as Hq.
    { subst s. cbn [quote_body]. f_equal. rewrite quote_body_skip. f_equal.
      fold w. destruct w as [|w']; [lia|]. reflexivity. }
    rewrite Hq, Hu, <- app_assoc. cbn [app unq_loop].
    assert ((c =? 34) = false) as -> by lia. assert ((c =? 10) = false) as -> by lia.
    rewrite Huq. cbn [pred].
    rewrite unq_skip by reflexivity.
    rewrite IH.
    + rewrite firstn_skipn. reflexivity.
    + rewrite skipn_length. subst s. cbn [length] in *. lia.
    + apply bytes_skipn. exact Hb.
Qed.

Theorem unquote_quote : forall cls s, bytes s -> unquote (quote cls s) = Some s.
Proof.
  intros cls s Hb. unfold unquote, quote. rewrite N.eqb_refl.
  rewrite (unq_loop_quote_body cls (length s) s [] (le_n _) Hb). reflexivity.
Qed.

(* ------------------------------------------------------------------ *)
(* Read after Write                                                    *)

Lemma strip_prefix_cons : forall a p s, strip_prefix (a :: p) (a :: s) = strip_prefix p s.
Proof. intros. cbn [strip_prefix]. rewrite N.eqb_refl. reflexivity. Qed.

Lemma strip_prefix_nil : forall s, strip_prefix [] s = Some s.
Proof. reflexivity. Qed.

Lemma strip_prefix_app : forall p s, strip_prefix p (p ++ s) = Some s.
Proof. induction p as [|a p IH]; intro s; [reflexivity|]. cbn [app]. rewrite strip_prefix_cons. apply IH. Qed.

Lemma strip_prefix_neq : forall a p b s, a <> b -> strip_prefix (a :: p) (b :: s) = None.
Proof. intros. cbn [strip_prefix]. assert ((a =? b) = false) as -> by lia. reflexivity. Qed.

Lemma split_at_app : forall c a s, ~ In c a -> split_at c (a ++ c :: s) = Some (a, s).
Proof.
  induction a as [|x a IH]; intros s H; cbn [app split_at].
  - rewrite N.eqb_refl. reflexivity.
  - cbn [In] in H. assert ((x =? c) = false) as -> by lia. rewrite IH by tauto. reflexivity.
Qed.

Lemma skip_spaces_repeat : forall n c s, c <> 32 -> skip_spaces (repeat 32 n ++ c :: s) = c :: s.
Proof.
  induction n as [|n IH]; intros c s H; cbn [repeat app skip_spaces].
  - assert ((c =? 32) = false) as -> by lia. reflexivity.
  - apply IH. exact H.
Qed.

Lemma repeat_app_cons : forall (x : N) n l, repeat x n ++ x :: l = x :: repeat x n ++ l.
Proof. induction n as [|n IH]; intro l; cbn [repeat app]; [reflexivity|]. f_equal. apply IH. Qed.

Lemma forallb_not_in : forall (P : N -> bool) c l, P c = false -> forallb P l = true -> ~ In c l.
Proof.
  intros P c l Hc Hl Hin. rewrite forallb_forall in Hl. apply Hl in Hin. congruence.
Qed.

Lemma valid_name_facts : forall cls n, valid_name cls n = true ->
  ~ In 32 n /\ ~ In 10 n /\ exists x n', n = x :: n' /\ x <> 47.
Proof.
  intros cls n H. unfold valid_name in H. destruct n as [|x n']; [discriminate|].
  apply andb_true_iff in H. destruct H as [H _]. apply andb_true_iff in H. destruct H as [H _].
  apply andb_true_iff in H. destruct H as [H _].
  split; [|split].
  - apply (forallb_not_in ident_byte); [reflexivity|exact H].
  - apply (forallb_not_in ident_byte); [reflexivity|exact H].
  - exists x, n'. split; [reflexivity|]. cbn [forallb] in H. apply andb_true_iff in H. destruct H as [H _].
    intros ->. discriminate.
Qed.

Lemma plain_doc_facts : forall cls d, plain_doc cls d = true -> ~ In 10 d.
Proof.
  intros cls d H. unfold plain_doc in H. destruct d as [|x d']; [intros []|].
  apply andb_true_iff in H. destruct H as [H _]. apply andb_true_iff in H. destruct H as [H _].
  apply andb_true_iff in H. destruct H as [H _].
  apply (forallb_not_in (fun b => (32 <=? b) && negb (b =? 127))); [reflexivity|exact H].
Qed.

(* the text of one spec, re-associated *)
Lemma spec_line_shape : forall cls pad p rest,
  spec_line cls pad p ++ rest =
  doc_line (p_doc p) ++ 9 :: p_name p ++ 32 :: repeat 32 pad ++ 61 :: 32 :: 34 ::
    quote_body cls 0 (p_value p) ++ 34 :: 10 :: rest.
Proof.
  intros. unfold spec_line, quote. change ($" = ") with [32; 61; 32].
  repeat (rewrite <- app_assoc || rewrite <- app_comm_cons). cbn [app].
  rewrite repeat_app_cons. reflexivity.
Qed.

Lemma read_spec_line : forall cls pad p rest,
  valid_name cls (p_name p) = true -> plain_doc cls (p_doc p) = true -> bytes (p_value p) ->
  read_spec (spec_line cls pad p ++ rest) = Some (p, rest).
Proof.
  intros cls pad [n d v] rest Hn Hd Hv. cbn [p_name p_doc p_value] in *.
  rewrite spec_line_shape. cbn [p_name p_doc p_value].
  destruct (valid_name_facts _ _ Hn) as (Hn32 & Hn10 & x & n' & Hnx & Hx47).
  pose proof (plain_doc_facts _ _ Hd) as Hd10.
  set (tail := repeat 32 pad ++ 61 :: 32 :: 34 :: quote_body cls 0 v ++ 34 :: 10 :: rest).
  (* what happens after the doc part *)
  assert (forall doc : list N,
    match split_at 32 (n ++ 32 :: tail) with
    | None => None
    | Some (name, t1) =>
        match name with
        | [] => None
        | _ =>
            match strip_prefix $"= " (skip_spaces t1) with
            | None => None
            | Some t2 =>
                match strip_prefix [34] t2 with
                | None => None
                | Some t3 =>
                    match unq_loop 0 t3 with
                    | None => None
                    | Some (v0, t4) =>
                        match strip_prefix [10] t4 with
                        | None => None
                        | Some t5 => Some (mkProp name doc v0, t5)
                        end
                    end
                end
            end
        end
    end = Some (mkProp n doc v, rest)) as Hrest.
  { intro doc. rewrite split_at_app by exact Hn32. rewrite Hnx. rewrite <- Hnx.
    subst tail. rewrite skip_spaces_repeat by lia.
    change ($"= ") with [61; 32]. repeat (rewrite strip_prefix_cons || rewrite strip_prefix_nil).
    rewrite (unq_loop_quote_body cls (length v) v (10 :: rest) (le_n _) Hv).
    repeat (rewrite strip_prefix_cons || rewrite strip_prefix_nil). reflexivity. }
  unfold read_spec. destruct d as [|d0 d'].
  - cbn [doc_line app]. repeat (rewrite strip_prefix_cons || rewrite strip_prefix_nil).
    change ($"//") with [47; 47]. rewrite Hnx at 1. cbn [app].
    rewrite strip_prefix_neq by lia. apply Hrest.
  - unfold doc_line. change ($"// ") with [47; 47; 32]. cbn [app].
    repeat (rewrite strip_prefix_cons || rewrite strip_prefix_nil).
    change ($"//") with [47; 47]. repeat (rewrite strip_prefix_cons || rewrite strip_prefix_nil).
    repeat (rewrite strip_prefix_cons || rewrite strip_prefix_nil).
    change (d0 :: d' ++ 10 :: 9 :: n ++ 32 :: tail) with ((d0 :: d') ++ 10 :: 9 :: n ++ 32 :: tail).
    rewrite <- app_assoc. cbn [app].
    change (d0 :: d' ++ 10 :: 9 :: n ++ 32 :: tail) with ((d0 :: d') ++ 10 :: 9 :: n ++ 32 :: tail).
    rewrite split_at_app by exact Hd10. repeat (rewrite strip_prefix_cons || rewrite strip_prefix_nil).
    apply Hrest.
Qed.

Definition good_prop (cls : N -> N) (p : property) : Prop :=
  valid_name cls (p_name p) = true /\ plain_doc cls (p_doc p) = true /\ bytes (p_value p).

Lemma spec_line_head : forall cls pad p, exists t, spec_line cls pad p = 9 :: t.
Proof.
  intros cls pad p. unfold spec_line, doc_line. destruct (p_doc p); cbn [app]; eexists; reflexivity.
Qed.

Lemma spec_lines_length : forall cls ps pds, (length ps <= length (spec_lines cls pds ps))%nat.
Proof.
  induction ps as [|p ps IH]; intro pds; cbn [spec_lines length]; [lia|].
  destruct (spec_line_head cls (hd 0%nat pds) p) as [t ->]. rewrite app_length. cbn [length].
  specialize (IH (tl pds)). lia.
Qed.

Lemma read_specs_lines : forall cls ps pds fuel,
  Forall (good_prop cls) ps -> (length ps < fuel)%nat ->
  read_specs fuel (spec_lines cls pds ps ++ [41; 10]) = Ok ps.
Proof.
  induction ps as [|p ps IH]; intros pds fuel Hg Hf; (destruct fuel as [|fuel]; [cbn [length] in Hf; lia|]).
  - reflexivity.
  - cbn [spec_lines read_specs]. rewrite <- app_assoc.
    destruct (spec_line_head cls (hd 0%nat pds) p) as [t Ht].
    assert (str_eqb (spec_line cls (hd 0%nat pds) p ++ spec_lines cls (tl pds) ps ++ [41; 10]) [41; 10] = false) as ->.
    { rewrite Ht. reflexivity. }
    inversion Hg as [|? ? (H1 & H2 & H3) Hg']; subst.
    rewrite read_spec_line by assumption.
    rewrite IH; [reflexivity|exact Hg'|cbn [length] in Hf; lia].
Qed.

Lemma forallb_bytes : forall v, forallb is_byte v = true -> bytes v.
Proof.
  intros v H. apply Forall_forall. intros x Hx. rewrite forallb_forall in H. apply H in Hx.
  unfold is_byte in Hx. lia.
Qed.

Theorem read_write_with : forall cls pds f,
  valid_names cls f = true -> plain_docs cls f = true -> byte_values f = true ->
  read_m (write_with cls pds f) = Ok f.
Proof.
  intros cls pds [pkg ps] Hn Hd Hv. unfold valid_names, plain_docs, byte_values in *. cbn [f_pkg f_props] in *.
  apply andb_true_iff in Hn. destruct Hn as [Hpkg Hn].
  assert (Forall (good_prop cls) ps) as Hg.
  { apply Forall_forall. intros p Hp. rewrite forallb_forall in Hn, Hd, Hv.
    split; [apply Hn; exact Hp|]. split; [apply Hd; exact Hp|]. apply forallb_bytes. apply Hv. exact Hp. }
  destruct (valid_name_facts _ _ Hpkg) as (_ & Hp10 & _).
  unfold write_with, read_m. cbn [f_pkg f_props].
  rewrite strip_prefix_app.
  change ([10; 10] ++ $"var (" ++ match ps with [] => [] | _ :: _ => 10 :: spec_lines cls pds ps end ++ [41; 10])
    with (10 :: (10 :: $"var (") ++ match ps with [] => [] | _ :: _ => 10 :: spec_lines cls pds ps end ++ [41; 10]).
  rewrite split_at_app by exact Hp10.
  rewrite strip_prefix_app.
  destruct ps as [|p ps'].
  - reflexivity.
  - set (ps := p :: ps') in *.
    change ((10 :: spec_lines cls pds ps) ++ [41; 10]) with (10 :: spec_lines cls pds ps ++ [41; 10]).
    assert (str_eqb (10 :: spec_lines cls pds ps ++ [41; 10]) [41; 10] = false) as -> by reflexivity.
    rewrite strip_prefix_cons, strip_prefix_nil.
    rewrite read_specs_lines; [reflexivity|exact Hg|].
    rewrite app_length. pose proof (spec_lines_length cls ps pds). lia.
Qed.

Theorem read_write : forall cls f,
  valid_names cls f = true -> plain_docs cls f = true -> byte_values f = true ->
  read_m (write_m cls f) = Ok f.
Proof. intros. apply read_write_with; assumption. Qed.

(* ------------------------------------------------------------------ *)
(* the ordered-map laws in one statement                               *)

Definition map_refines_stmt : Prop := forall f,
  (forall n, file_get n f = alookup n (abs f)) /\
  (forall n, file_get n f = None <-> ~ In n (names f)) /\
  (forall p, In (p_name p) (names f) -> file_add p f = Err $"exists") /\
  (forall p, ~ In (p_name p) (names f) ->
     file_add p f = Ok (mkFile (f_pkg f) (f_props f ++ [p])) /\
     forall n, file_get n (mkFile (f_pkg f) (f_props f ++ [p])) =
               if str_eqb (p_name p) n then Some (p_value p) else file_get n f) /\
  (forall n v, ~ In n (names f) -> file_set n v f = Err $"unknown") /\
  (forall n v, In n (names f) -> exists l1 q l2,
     f_props f = l1 ++ q :: l2 /\ p_name q = n /\ ~ In n (map p_name l1) /\
     file_set n v f = Ok (mkFile (f_pkg f) (l1 ++ mkProp n (p_doc q) v :: l2)) /\
     forall m, file_get m (mkFile (f_pkg f) (l1 ++ mkProp n (p_doc q) v :: l2)) =
               if str_eqb n m then Some v else file_get m f).

Lemma map_refines : map_refines_stmt.
Proof.
  intro f. split; [intro n; apply file_get_alookup|]. split; [intro n; apply file_get_none|].
  split; [intro p; apply file_add_spec|]. split.
  { intros p Hp. split; [apply file_add_spec; exact Hp|]. intro n. rewrite file_get_add by exact Hp.
    destruct (str_eqb (p_name p) n) eqn:E.
    - apply str_eqb_eq in E. subst n. apply file_get_none in Hp. rewrite Hp. reflexivity.
    - destruct (file_get n f); reflexivity. }
  split; [intros n v; apply file_set_spec|].
  intros n v Hin. destruct (proj2 (file_set_spec n v f) Hin) as (l1 & q & l2 & Hf & Hq & Hni & Hs).
  exists l1, q, l2. split; [exact Hf|]. split; [exact Hq|]. split; [exact Hni|]. split; [exact Hs|].
  intro m. rewrite (file_get_set n v (f_pkg f) l1 q l2 m Hq Hni). destruct f as [pkg ps]. cbn [f_pkg f_props] in *.
  rewrite Hf. reflexivity.
Qed.

(* ------------------------------------------------------------------ *)
(* what the padding computes: the '=' signs of consecutive specs line up unless a
   documentation line separates them, and no name is truncated *)

Fixpoint aligned (ps : list property) (pds : list nat) : Prop :=
  match ps, pds with
  | p :: r, a :: t =>
      match r, t with
      | q :: _, b :: _ => (has_doc q = false -> name_width p + a = name_width q + b)%nat
      | _, _ => True
      end /\ aligned r t
  | _, _ => True
  end.

Lemma pads_aux_length : forall ps w first, length (pads_aux w first ps) = length ps.
Proof. induction ps as [|p ps IH]; intros w first; cbn [pads_aux length]; [reflexivity|]. f_equal. apply IH. Qed.

Lemma pads_aux_aligned : forall ps w first,
  (first = false -> block_rest_width ps <= w)%nat -> aligned ps (pads_aux w first ps).
Proof.
  induction ps as [|p ps IH]; intros w first Hinv; cbn [pads_aux aligned]; [exact I|].
  set (w' := if first || has_doc p then Nat.max (name_width p) (block_rest_width ps) else w).
  assert (name_width p <= w' /\ block_rest_width ps <= w')%nat as [Hp Hr].
  { subst w'. destruct (first || has_doc p) eqn:E; [lia|].
    apply orb_false_iff in E. destruct E as [-> E]. specialize (Hinv eq_refl).
    cbn [block_rest_width] in Hinv. rewrite E in Hinv. lia. }
  split.
  - destruct ps as [|q ps']; [exact I|]. cbn [pads_aux]. intro Hq. rewrite Hq. cbn [orb].
    cbn [block_rest_width] in Hr. rewrite Hq in Hr. lia.
  - apply IH. intros _. exact Hr.
Qed.

Lemma pads_aligned : forall ps, length (pads ps) = length ps /\ aligned ps (pads ps).
Proof.
  intro ps. unfold pads. split; [apply pads_aux_length|]. apply pads_aux_aligned. discriminate.
Qed.

(* ------------------------------------------------------------------ *)
(* histories of WriteFile on one path                                  *)

Lemma file_history : forall cls old fs f,
  valid_names cls f = true -> plain_docs cls f = true -> byte_values f = true ->
  read_file (write_files cls old (fs ++ [f])) = Ok f.
Proof.
  intros cls old fs f Hn Hd Hv. unfold write_files, read_file. rewrite fold_left_app.
  cbn [fold_left]. unfold write_file. apply read_write; assumption.
Qed.
