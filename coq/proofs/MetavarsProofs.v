(* Lemmas about model/Metavars.v (C20). *)
From Coq Require Import String.
From Coq Require Import List NArith Bool Lia.
From AV Require Import model.Proto model.Metavars.
Import ListNotations.
Open Scope N_scope.

Lemma str_eqb_refl : forall a, str_eqb a a = true.
Proof. induction a as [|x a IH]; cbn [str_eqb]; [reflexivity|]. rewrite N.eqb_refl, IH. reflexivity. Qed.
