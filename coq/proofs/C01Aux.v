(* C01: facts about addition chains as sets, shared by BinaryProofs, DictProofs, EnsembleProofs. *)
From Coq Require Import String.
From Coq Require Import List NArith ZArith Bool Arith Lia.
From AV Require Import model.Proto model.Lists model.Chain proofs.ChainProofs proofs.ListsProofs proofs.ProgramProofs.
Import ListNotations.
Open Scope Z_scope.

(* sorted_distinct (ListsProofs) is inc (ChainProofs) *)
Lemma sorted_distinct_inc l : sorted_distinct l -> inc l.
Proof.
  intros Hs i j Hij. unfold nz.
  apply (sorted_distinct_nth l Hs i j); [lia| |]; apply nth_error_nth'; lia.
Qed.

Lemma inc_sorted_distinct l : inc l -> sorted_distinct l.
Proof.
  induction l as [|x t IH]; intros Hi; cbn [sorted_distinct]; [exact I|]. split.
  - intros y Hy. apply In_nz in Hy. destruct Hy as (i & Hi' & <-).
    apply (Hi 0%nat (S i)). cbn [length]. lia.
  - apply IH. intros i j Hij. apply (Hi (S i) (S j)). cbn [length]. lia.
Qed.

(* a strictly increasing list that starts with 1 and in which every other member is the sum of
   two members is an addition chain (the two summands are smaller, hence earlier) *)
Lemma inc_closed_is_chain l :
  (exists r, l = 1 :: r) -> inc l ->
  (forall x, In x l -> x <> 1 -> exists a b, In a l /\ In b l /\ a + b = x) ->
  is_chain l.
Proof.
  intros [r Er] Hinc Hcl.
  assert (H0 : nz l 0 = 1) by (rewrite Er; reflexivity).
  assert (Hlen : (1 <= length l)%nat) by (rewrite Er; cbn [length]; lia).
  assert (Hpos : forall i, (i < length l)%nat -> 1 <= nz l i).
  { intros i Hi. destruct i; [lia|]. pose proof (Hinc 0%nat (S i) ltac:(lia)). lia. }
  assert (Hmono : forall i k, (i < length l)%nat -> (k < length l)%nat -> nz l i < nz l k -> (i < k)%nat).
  { intros i k Hi Hk Hlt. destruct (Nat.lt_ge_cases i k) as [|Hge]; [assumption|].
    destruct (Nat.eq_dec i k) as [->|Hne]; [lia|]. pose proof (Hinc k i ltac:(lia)). lia. }
  split; [now exists r|]. split; [now apply inc_NoDup|]. split.
  - intros H. apply In_nz in H. destruct H as (i & Hi & E). pose proof (Hpos i Hi). lia.
  - intros k Hk.
    assert (Hx : nz l k <> 1) by (pose proof (Hinc 0%nat k ltac:(lia)); lia).
    destruct (Hcl (nz l k) (nz_In l k ltac:(lia)) Hx) as (a & b & Ha & Hb & Es).
    apply In_nz in Ha. destruct Ha as (i & Hi & <-). apply In_nz in Hb. destruct Hb as (j & Hj & <-).
    pose proof (Hpos i Hi). pose proof (Hpos j Hj).
    assert (i < k)%nat by (apply Hmono; lia). assert (j < k)%nat by (apply Hmono; lia).
    destruct (Nat.le_ge_cases i j).
    + exists i, j. split; [lia|exact Es].
    + exists j, i. split; [lia|lia].
Qed.

(* the members of a chain form a set of positive numbers that contains 1 and in which every other
   member is a sum of two members *)
Definition closed_set (l : list Z) : Prop :=
  In 1 l /\ (forall x, In x l -> 1 <= x) /\
  forall x, In x l -> x <> 1 -> exists a b, In a l /\ In b l /\ a + b = x.

Lemma is_chain_closed_set c : is_chain c -> closed_set c.
Proof.
  intros Hc. pose proof (fun x => chain_pos c x Hc) as Hpos. destruct Hc as ([r Er] & Hnd & H0 & Hs).
  split; [rewrite Er; now left|]. split; [exact Hpos|].
  intros x Hx Hx1. apply In_nz in Hx. destruct Hx as (k & Hk & <-).
  destruct k as [|k]; [exfalso; apply Hx1; rewrite Er; reflexivity|].
  destruct (Hs (S k) ltac:(lia)) as (i & j & Hij & E).
  exists (nz c i), (nz c j). split; [apply nz_In; lia|]. split; [apply nz_In; lia|exact E].
Qed.

(* L2, second half: sorting and de-duplicating such a set gives an ascending addition chain *)
Theorem sort_unique_chain l : closed_set l -> is_chain (unique (sort l)) /\ asc (unique (sort l)).
Proof.
  intros (H1 & Hpos & Hcl). destruct (unique_sort_spec l) as [Hsd Hin].
  set (u := unique (sort l)) in *.
  assert (Hinc : inc u) by now apply sorted_distinct_inc.
  assert (Hhd : exists r, u = 1 :: r).
  { destruct u as [|x r] eqn:Eu; [exfalso; now apply (Hin 1)|]. exists r. f_equal.
    assert (Hx : 1 <= x) by (apply Hpos, Hin; now left).
    destruct (proj2 (Hin 1) H1) as [E|Hr]; [exact E|].
    cbn [sorted_distinct] in Hsd. pose proof (proj1 Hsd 1 Hr). lia. }
  split; [|split; [exact Hhd|exact Hinc]].
  apply inc_closed_is_chain; [exact Hhd|exact Hinc|].
  intros x Hx Hx1. apply Hin in Hx. destruct (Hcl x Hx Hx1) as (a & b & Ha & Hb & E).
  exists a, b. split; [now apply Hin|]. split; [now apply Hin|exact E].
Qed.

Lemma sort_unique_last l : closed_set l -> forall m, In m l -> (forall x, In x l -> x <= m) ->
  last (unique (sort l)) 0 = m.
Proof.
  intros Hcs m Hm Hmax. destruct (sort_unique_chain l Hcs) as [Hc [_ Hinc]].
  destruct (unique_sort_spec l) as [_ Hin]. set (u := unique (sort l)) in *.
  assert (Hne : u <> []) by (intros E; rewrite E in Hin; now apply (Hin m)).
  assert (Hl : In (last u 0) u) by (apply ProgramProofs.last_In; exact Hne).
  pose proof (inc_le_last u m Hinc (proj2 (Hin m) Hm)). pose proof (Hmax _ (proj1 (Hin _) Hl)). lia.
Qed.

(* closure is preserved when sums of members are added *)
Lemma closed_set_app l m : closed_set l ->
  (forall x, In x m -> exists a b, In a (l ++ m) /\ In b (l ++ m) /\ a + b = x) ->
  (forall x, In x m -> 1 <= x) ->
  closed_set (l ++ m).
Proof.
  intros (H1 & Hpos & Hcl) Hm Hmpos. split; [apply in_app_iff; now left|]. split.
  - intros x Hx. apply in_app_iff in Hx. destruct Hx; auto.
  - intros x Hx Hx1. apply in_app_iff in Hx. destruct Hx as [Hx|Hx]; [|now apply Hm].
    destruct (Hcl x Hx Hx1) as (a & b & Ha & Hb & E). exists a, b.
    rewrite !in_app_iff. auto.
Qed.
