(* Proofs about model/Chain.v (C02): the validator accepts exactly the addition chains, Ops lists
   exactly the index pairs, Program() evaluates back to the chain.  The lemmas about [is_chain] and
   [asc] at the end are stated for re-use by the properties that build on C02. *)
From Coq Require Import String.
From Coq Require Import List NArith ZArith Bool Arith Lia FinFun.
From AV Require Import model.Proto model.Chain.
Import ListNotations.
Open Scope Z_scope.

(* ------------------------------------------------------------------------------------------ *)
(* generic list facts *)

Lemma filter_nil {A} (f : A -> bool) l : (forall x, In x l -> f x = false) -> filter f l = [].
Proof.
  induction l as [|x t IH]; intros H; cbn [filter]; [reflexivity|].
  rewrite (H x) by (left; reflexivity). apply IH. intros y Hy. apply H. right. exact Hy.
Qed.

Lemma filter_flat_map {A B} (f : B -> bool) (g : A -> list B) l :
  filter f (flat_map g l) = flat_map (fun a => filter f (g a)) l.
Proof. induction l as [|x t IH]; cbn [flat_map filter]; [reflexivity|]. now rewrite filter_app, IH. Qed.

Lemma flat_map_ext_in' {A B} (f g : A -> list B) l :
  (forall a, In a l -> f a = g a) -> flat_map f l = flat_map g l.
Proof.
  induction l as [|x t IH]; intros H; cbn [flat_map]; [reflexivity|].
  rewrite (H x) by (left; reflexivity). f_equal. apply IH. intros y Hy. apply H. right. exact Hy.
Qed.

Lemma NoDup_app' {A} (l m : list A) :
  NoDup l -> NoDup m -> (forall x, In x l -> ~ In x m) -> NoDup (l ++ m).
Proof.
  induction l as [|x t IH]; intros Hl Hm Hd; cbn [app]; [exact Hm|].
  inversion Hl as [|? ? Hx Ht]; subst. constructor.
  - rewrite in_app_iff. intros [H|H]; [exact (Hx H)|]. exact (Hd x (or_introl eq_refl) H).
  - apply IH; [exact Ht|exact Hm|]. intros y Hy. apply Hd. right. exact Hy.
Qed.

Lemma NoDup_filter' {A} (f : A -> bool) l : NoDup l -> NoDup (filter f l).
Proof.
  induction 1 as [|x t Hx Ht IH]; cbn [filter]; [constructor|].
  destruct (f x); [|exact IH]. constructor; [|exact IH].
  intros H. apply filter_In in H. exact (Hx (proj1 H)).
Qed.

(* ------------------------------------------------------------------------------------------ *)
(* the enumeration [pairs lo hi] of index pairs lo <= i <= j < hi, in lexicographic order *)

Section Pairs.
Local Open Scope nat_scope.

Lemma pairs_unfold lo hi : lo < hi -> pairs lo hi = row lo hi ++ pairs (S lo) hi.
Proof. intros H. unfold pairs. replace (hi - lo) with (S (hi - S lo)) by lia. reflexivity. Qed.

Lemma pairs_empty lo hi : hi <= lo -> pairs lo hi = [].
Proof. intros H. unfold pairs. replace (hi - lo) with 0 by lia. reflexivity. Qed.

Lemma row_last i hi : i < hi -> row i hi = row i (hi - 1) ++ [(i, hi - 1)].
Proof.
  intros H. unfold row. replace (hi - i) with (S (hi - 1 - i)) by lia.
  rewrite seq_S, map_app. cbn [map]. do 3 f_equal. lia.
Qed.

Lemma in_row i j i' hi : In (i, j) (row i' hi) <-> i = i' /\ i' <= j < hi.
Proof.
  unfold row. rewrite in_map_iff. split.
  - intros (y & E & Hy). injection E as <- <-. apply in_seq in Hy. lia.
  - intros (-> & H). exists j. split; [reflexivity|apply in_seq; lia].
Qed.

Lemma in_pairs i j lo hi : In (i, j) (pairs lo hi) <-> lo <= i /\ i <= j /\ j < hi.
Proof.
  unfold pairs. rewrite in_flat_map. split.
  - intros (x & Hx & Hr). apply in_seq in Hx. apply in_row in Hr. lia.
  - intros H. exists i. split; [apply in_seq; lia|apply in_row; lia].
Qed.

Lemma NoDup_row i hi : NoDup (row i hi).
Proof.
  unfold row. apply FinFun.Injective_map_NoDup; [|apply seq_NoDup].
  intros a b E. now injection E.
Qed.

Lemma NoDup_pairs lo hi : NoDup (pairs lo hi).
Proof.
  remember (hi - lo) as n eqn:En. revert lo En.
  induction n as [|n IH]; intros lo En.
  - rewrite pairs_empty by lia. constructor.
  - rewrite pairs_unfold by lia. apply NoDup_app'; [apply NoDup_row|apply IH; lia|].
    intros [i j] H1 H2. apply in_row in H1. apply in_pairs in H2. lia.
Qed.
End Pairs.

(* ------------------------------------------------------------------------------------------ *)
(* two-pointer path = quadratic path on a strictly ascending prefix *)

Definition sols (c : list Z) (k lo hi : nat) : list op := filter (sol c k) (pairs lo hi).

Section Asc.
Local Open Scope nat_scope.
Variable c : list Z.
Variable k : nat.
Hypothesis Hasc : forall i j, i < j -> j < k -> (nz c i < nz c j)%Z.

Lemma asc_le i j : i <= j -> j < k -> (nz c i <= nz c j)%Z.
Proof using Hasc.
  intros H1 H2. destruct (Nat.eq_dec i j) as [->|Hn]; [lia|].
  pose proof (Hasc i j ltac:(lia) H2). lia.
Qed.

(* sum at (l, hi-1) not above the target: only the last column of row l can match *)
Lemma case_le l hi : l < hi -> hi <= k -> (nz c l + nz c (hi - 1) <= nz c k)%Z ->
  sols c k l hi = (if sol c k (l, hi - 1) then [(l, hi - 1)] else []) ++ sols c k (S l) hi.
Proof using Hasc.
  intros Hl Hh Hs. unfold sols. rewrite pairs_unfold by assumption. rewrite filter_app. f_equal.
  rewrite row_last by assumption. rewrite filter_app. cbn [filter].
  rewrite filter_nil; [destruct (sol c k (l, hi - 1)); reflexivity|].
  intros [i j] Hin. apply in_row in Hin as (-> & Hj). unfold sol. cbn [fst snd].
  apply Z.eqb_neq. pose proof (Hasc j (hi - 1) ltac:(lia) ltac:(lia)). lia.
Qed.

(* sum at (l, hi-1) above the target: column hi-1 cannot match any row >= l *)
Lemma case_gt l hi : l < hi -> hi <= k -> (nz c k < nz c l + nz c (hi - 1))%Z ->
  sols c k l hi = sols c k l (hi - 1).
Proof using Hasc.
  intros Hl Hh Hs. unfold sols, pairs. rewrite !filter_flat_map.
  replace (hi - l) with (S (hi - 1 - l)) by lia. rewrite seq_S, flat_map_app. cbn [flat_map].
  replace (l + (hi - 1 - l)) with (hi - 1) by lia.
  assert (Hcol : forall i, l <= i -> i < hi -> sol c k (i, hi - 1) = false).
  { intros i H1 H2. unfold sol. cbn [fst snd]. apply Z.eqb_neq.
    pose proof (asc_le l i H1 ltac:(lia)). lia. }
  rewrite app_nil_r.
  assert (Elast : filter (sol c k) (row (hi - 1) hi) = []).
  { apply filter_nil. intros [i j] Hin. apply in_row in Hin as (-> & Hj).
    replace j with (hi - 1) by lia. apply Hcol; lia. }
  rewrite Elast, app_nil_r. apply flat_map_ext_in'. intros i Hi. apply in_seq in Hi.
  rewrite (row_last i hi) by lia. rewrite filter_app. cbn [filter]. rewrite Hcol by lia.
  now rewrite app_nil_r.
Qed.

Lemma loop_spec : forall fuel l hi, hi <= k -> hi - l < fuel -> ops_2p_loop fuel c k l hi = sols c k l hi.
Proof using Hasc.
  induction fuel as [|fuel IH]; intros l hi Hh Hf; [lia|]. cbn [ops_2p_loop].
  destruct (l <? hi) eqn:E.
  - apply Nat.ltb_lt in E. cbv zeta.
    destruct (nz c l + nz c (hi - 1) =? nz c k)%Z eqn:Eeq.
    + apply Z.eqb_eq in Eeq. rewrite case_le by (try assumption; lia).
      unfold sol at 1. cbn [fst snd]. rewrite Eeq, Z.eqb_refl. cbn [app]. f_equal. apply IH; lia.
    + apply Z.eqb_neq in Eeq. destruct (nz c l + nz c (hi - 1) <? nz c k)%Z eqn:Elt.
      * apply Z.ltb_lt in Elt. rewrite case_le by (try assumption; lia).
        unfold sol at 1. cbn [fst snd].
        replace (nz c l + nz c (hi - 1) =? nz c k)%Z with false by (symmetry; apply Z.eqb_neq; lia).
        cbn [app]. apply IH; lia.
      * apply Z.ltb_ge in Elt. rewrite case_gt by (try assumption; lia). apply IH; lia.
  - apply Nat.ltb_ge in E. unfold sols. now rewrite pairs_empty.
Qed.

Theorem ops_2p_quad : ops_2p c k = ops_quad c k.
Proof using Hasc. unfold ops_2p, ops_quad. rewrite loop_spec by lia. reflexivity. Qed.
End Asc.

(* ------------------------------------------------------------------------------------------ *)
(* IsAscending *)

Lemma nz_cons_S x (c : list Z) i : nz (x :: c) (S i) = nz c i.
Proof. reflexivity. Qed.
Lemma nz_cons_0 x (c : list Z) : nz (x :: c) 0 = x.
Proof. reflexivity. Qed.

Lemma strictly_inc_spec c :
  strictly_inc c = true <-> forall i j, (i < j < length c)%nat -> nz c i < nz c j.
Proof.
  induction c as [|x r IH].
  - split; [intros _ i j H; cbn [length] in H; lia|reflexivity].
  - destruct r as [|y r'].
    + split; [intros _ i j H; cbn [length] in H; lia|reflexivity].
    + change (strictly_inc (x :: y :: r')) with ((x <? y) && strictly_inc (y :: r')).
      rewrite andb_true_iff, IH, Z.ltb_lt. split.
      * intros [Hxy Hr] i j Hij. destruct j as [|j]; [lia|]. rewrite nz_cons_S.
        destruct i as [|i].
        -- rewrite nz_cons_0. destruct j as [|j]; [exact Hxy|].
           pose proof (Hr 0%nat (S j)) as H0. rewrite nz_cons_0 in H0.
           cbn [length] in *. specialize (H0 ltac:(lia)). lia.
        -- rewrite nz_cons_S. apply Hr. cbn [length] in *. lia.
      * intros H. split.
        -- apply (H 0%nat 1%nat). cbn [length]. lia.
        -- intros i j Hij. apply (H (S i) (S j)). cbn [length] in *. lia.
Qed.

Theorem asc_iff c : is_asc c = true <-> asc c.
Proof.
  unfold asc. destruct c as [|x r].
  - split; [discriminate|]. intros [[r E] _]. discriminate.
  - cbn [is_asc]. rewrite andb_true_iff, Z.eqb_eq, strictly_inc_spec. split.
    + intros [-> H]. split; [now exists r|exact H].
    + intros [[r' E] H]. injection E as -> ->. split; [reflexivity|exact H].
Qed.

Lemma nz_firstn k (c : list Z) i : (i < k)%nat -> nz (firstn k c) i = nz c i.
Proof.
  unfold nz. revert c i. induction k as [|k IH]; intros c i H; [lia|].
  destruct c as [|x c]; [destruct i; reflexivity|]. destruct i as [|i]; [reflexivity|].
  cbn [firstn nth]. apply IH. lia.
Qed.

(* ------------------------------------------------------------------------------------------ *)
(* Ops(k): exactly the index pairs, whatever the order of the elements *)

Theorem ops_spec c k : (k <= length c)%nat -> ops c k = filter (sol c k) (pairs 0 k).
Proof.
  intros Hk. unfold ops. destruct (is_asc (firstn k c)) eqn:E; [|reflexivity].
  apply asc_iff in E. destruct E as [_ E]. apply ops_2p_quad.
  intros i j Hij Hj. rewrite firstn_length_le in E by exact Hk.
  specialize (E i j ltac:(lia)). rewrite !nz_firstn in E by lia. exact E.
Qed.

Lemma in_ops c k i j : (k <= length c)%nat ->
  In (i, j) (ops c k) <-> (i <= j < k)%nat /\ nz c i + nz c j = nz c k.
Proof.
  intros Hk. rewrite ops_spec by exact Hk. rewrite filter_In, in_pairs. unfold sol. cbn [fst snd].
  rewrite Z.eqb_eq. intuition lia.
Qed.

Lemma NoDup_ops c k : (k <= length c)%nat -> NoDup (ops c k).
Proof. intros Hk. rewrite ops_spec by exact Hk. apply NoDup_filter', NoDup_pairs. Qed.

Lemma ops_go_in_range c k : (k < length c)%nat -> ops_go c k = Ok (filter (sol c k) (pairs 0 k)).
Proof.
  intros Hk. unfold ops_go. destruct (k =? 0)%nat eqn:E0.
  - apply Nat.eqb_eq in E0. subst k. reflexivity.
  - apply Nat.ltb_lt in Hk. rewrite Hk. apply Nat.ltb_lt in Hk. rewrite ops_spec by lia. reflexivity.
Qed.

Lemma ops_go_out_of_range c k : (length c <= k)%nat -> k <> 0%nat -> ops_go c k = Panic ($"index").
Proof.
  intros Hk H0. unfold ops_go. apply Nat.eqb_neq in H0. rewrite H0.
  apply Nat.ltb_ge in Hk. rewrite Hk. reflexivity.
Qed.

(* ------------------------------------------------------------------------------------------ *)
(* Program() / Validate() *)

Lemma existsb_eqb_In x c : existsb (Z.eqb x) c = true <-> In x c.
Proof.
  rewrite existsb_exists. split.
  - intros (y & Hy & E). apply Z.eqb_eq in E. now subst.
  - intros H. exists x. split; [exact H|apply Z.eqb_refl].
Qed.

Lemma has_dup_false c : has_dup c = false <-> NoDup c.
Proof.
  induction c as [|x r IH]; cbn [has_dup].
  - split; [constructor|reflexivity].
  - rewrite orb_false_iff, IH. split.
    + intros [H1 H2]. constructor; [|exact H2]. intros Hin. apply existsb_eqb_In in Hin. congruence.
    + intros H. inversion H as [|? ? Hx Hr]; subst. split; [|exact Hr].
      destruct (existsb (Z.eqb x) r) eqn:E; [|reflexivity]. apply existsb_eqb_In in E. contradiction.
Qed.

(* the loop over positions succeeds exactly when every position has an operation, and then
   returns the first listed operation of each *)
Lemma program_loop_ok c ks p :
  program_loop c ks = Ok p <-> Forall2 (fun k o => exists t, ops c k = o :: t) ks p.
Proof.
  revert p. induction ks as [|k r IH]; intros p; cbn [program_loop].
  - split; [intros E; injection E as <-; constructor|intros H; inversion H; reflexivity].
  - unfold op_at. destruct (ops c k) as [|o t] eqn:Eo; cbn [obind].
    + split; [discriminate|]. intros H. inversion H as [|? ? ? ? [t E] _]; subst. congruence.
    + destruct (program_loop c r) as [p'| | |] eqn:Er; cbn [obind].
      * split.
        -- intros E. injection E as <-. constructor; [now exists t|]. now apply IH.
        -- intros H. inversion H as [|? o' ? p'' [t' E] Hr]; subst. rewrite Eo in E. injection E as <- <-.
           apply IH in Hr. congruence.
      * split; [discriminate|]. intros H. inversion H as [|? ? ? p'' _ Hr]; subst.
        apply IH in Hr. discriminate.
      * split; [discriminate|]. intros H. inversion H as [|? ? ? p'' _ Hr]; subst.
        apply IH in Hr. discriminate.
      * split; [discriminate|]. intros H. inversion H as [|? ? ? p'' _ Hr]; subst.
        apply IH in Hr. discriminate.
Qed.

Lemma program_loop_total c ks :
  (forall k, In k ks -> ops c k <> []) -> exists p, program_loop c ks = Ok p.
Proof.
  induction ks as [|k r IH]; intros H.
  - now exists [].
  - destruct IH as [p Hp]; [intros k' Hk'; apply H; now right|].
    destruct (ops c k) as [|o t] eqn:Eo; [exfalso; apply (H k); [now left|exact Eo]|].
    exists (o :: p). apply program_loop_ok. constructor; [now exists t|]. now apply program_loop_ok.
Qed.

Lemma Forall2_in_l' {A B} (R : A -> B -> Prop) l l' x :
  Forall2 R l l' -> In x l -> exists y, In y l' /\ R x y.
Proof.
  induction 1 as [|a b l l' Hab Hl IH]; intros Hin; [destruct Hin|].
  destruct Hin as [->|Hin]; [exists b; split; [now left|exact Hab]|].
  destruct (IH Hin) as (y & Hy & Hr). exists y. split; [now right|exact Hr].
Qed.

(* the pre-checks of Program(), as a proposition *)
Definition prechecks (c : list Z) : Prop := (exists r, c = 1 :: r) /\ NoDup c /\ ~ In 0 c.

Lemma program_ok_iff c p :
  program c = Ok p <-> prechecks c /\ program_loop c (seq 1 (length c - 1)) = Ok p.
Proof.
  unfold program, prechecks. destruct c as [|x r].
  - split; [discriminate|]. intros [[[r E] _] _]. discriminate.
  - destruct (x =? 1) eqn:E1; cbn [negb].
    + apply Z.eqb_eq in E1. subst x.
      destruct (existsb (Z.eqb 0) (1 :: r)) eqn:E0.
      * split; [discriminate|]. intros [(_ & _ & H) _]. apply existsb_eqb_In in E0. contradiction.
      * destruct (has_dup (1 :: r)) eqn:Ed.
        -- split; [discriminate|]. intros [(_ & H & _) _]. apply has_dup_false in H. congruence.
        -- split.
           ++ intros H. split; [|exact H]. split; [now exists r|]. split; [now apply has_dup_false|].
              intros Hin. apply existsb_eqb_In in Hin. congruence.
           ++ intros [_ H]. exact H.
    + split; [discriminate|]. intros [[[r' E] _] _]. injection E as -> _. discriminate.
Qed.

Lemma program_not_panic c : (forall cls, program c <> Panic cls) /\ program c <> OutOfFuel.
Proof.
  assert (L : forall ks, (forall cls, program_loop c ks <> Panic cls) /\ program_loop c ks <> OutOfFuel).
  { induction ks as [|k r [IH1 IH2]]; cbn [program_loop]; [split; [intros cls|]; discriminate|].
    unfold op_at. destruct (ops c k); cbn [obind]; [split; [intros cls|]; discriminate|].
    destruct (program_loop c r) as [p'|e|e|]; cbn [obind].
    - split; [intros cls|]; discriminate.
    - split; [intros cls|]; discriminate.
    - exfalso. exact (IH1 e eq_refl).
    - exfalso. exact (IH2 eq_refl). }
  unfold program. destruct c as [|x r]; [split; [intros cls|]; discriminate|].
  destruct (negb (x =? 1)); [split; [intros cls|]; discriminate|].
  destruct (existsb (Z.eqb 0) (x :: r)); [split; [intros cls|]; discriminate|].
  destruct (has_dup (x :: r)); [split; [intros cls|]; discriminate|]. apply L.
Qed.

Theorem program_iff c : (exists p, program c = Ok p) <-> is_chain c.
Proof.
  unfold is_chain. split.
  - intros [p Hp]. apply program_ok_iff in Hp. destruct Hp as [(H1 & H2 & H3) Hl].
    repeat split; try assumption. intros k Hk. apply program_loop_ok in Hl.
    assert (Hin : In k (seq 1 (length c - 1))) by (apply in_seq; lia).
    destruct (Forall2_in_l' _ _ _ _ Hl Hin) as ([i j] & _ & t & Et).
    assert (Hij : In (i, j) (ops c k)) by (rewrite Et; now left).
    apply in_ops in Hij; [|lia]. exists i, j. exact Hij.
  - intros (H1 & H2 & H3 & H4).
    destruct (program_loop_total c (seq 1 (length c - 1))) as [p Hp].
    + intros k Hk. apply in_seq in Hk. destruct (H4 k ltac:(lia)) as (i & j & Hij & Hs).
      intros E. assert (Hin : In (i, j) (ops c k)) by (apply in_ops; [lia|now split]).
      rewrite E in Hin. exact Hin.
    + exists p. apply program_ok_iff. split; [|exact Hp]. repeat split; assumption.
Qed.

Theorem validate_iff c : validate c = Ok tt <-> is_chain c.
Proof.
  rewrite <- program_iff. unfold validate. split.
  - destruct (program c) as [p| | |]; cbn [obind]; try discriminate. intros _. now exists p.
  - intros [p ->]. reflexivity.
Qed.

Lemma validate_cases c : validate c = Ok tt \/ exists cls, validate c = Err cls.
Proof.
  unfold validate. destruct (program_not_panic c) as [H1 H2].
  destruct (program c) as [p|cls|cls|]; cbn [obind].
  - now left.
  - right. now exists cls.
  - exfalso. exact (H1 cls eq_refl).
  - exfalso. exact (H2 eq_refl).
Qed.

Theorem produces_iff c n : produces c n = Ok tt <-> is_chain c /\ last c 0 = n.
Proof.
  rewrite <- validate_iff. unfold produces.
  destruct (validate_cases c) as [-> | [cls ->]]; cbn [obind].
  - destruct (last c 0 =? n) eqn:E.
    + apply Z.eqb_eq in E. tauto.
    + apply Z.eqb_neq in E. split; [discriminate|]. intros [_ H]. contradiction.
  - split; [discriminate|]. intros [H _]. discriminate.
Qed.

Theorem superset_iff c ts : superset c ts = Ok tt <-> is_chain c /\ forall t, In t ts -> In t c.
Proof.
  rewrite <- validate_iff. unfold superset.
  destruct (validate_cases c) as [-> | [cls ->]]; cbn [obind].
  - destruct (forallb (fun t => existsb (Z.eqb t) c) ts) eqn:E.
    + rewrite forallb_forall in E. split; [|reflexivity]. intros _. split; [reflexivity|].
      intros t Ht. apply existsb_eqb_In. now apply E.
    + split; [discriminate|]. intros [_ H]. assert (E' : forallb (fun t => existsb (Z.eqb t) c) ts = true).
      { apply forallb_forall. intros t Ht. apply existsb_eqb_In. now apply H. }
      congruence.
  - split; [discriminate|]. intros [H _]. discriminate.
Qed.

(* ------------------------------------------------------------------------------------------ *)
(* Program() of a valid chain evaluates back to the chain *)

Lemma nth_error_nz (pre rest : list Z) i :
  (i < length pre)%nat -> nth_error pre i = Some (nz (pre ++ rest) i).
Proof.
  intros H. unfold nz. rewrite app_nth1 by exact H. now apply nth_error_nth'.
Qed.

Lemma nz_app_l (a b : list Z) i : (i < length a)%nat -> nz (a ++ b) i = nz a i.
Proof. intros H. unfold nz. now apply app_nth1. Qed.

Lemma nz_app_r (a b : list Z) i : nz (a ++ b) (length a + i) = nz b i.
Proof. unfold nz. rewrite app_nth2 by lia. f_equal. lia. Qed.

(* a program that derives c position by position evaluates to c *)
Definition derives_at (c : list Z) (k : nat) (o : op) : Prop :=
  (fst o < k)%nat /\ (snd o < k)%nat /\ nz c (fst o) + nz c (snd o) = nz c k.

Lemma evaluate_from_derives c : forall p pre rest,
  c = pre ++ rest ->
  Forall2 (derives_at c) (seq (length pre) (length rest)) p ->
  evaluate_from pre p = Ok c.
Proof.
  induction p as [|[i j] p IH]; intros pre rest Ec H.
  - inversion H as [E|]. destruct rest; [|discriminate]. rewrite app_nil_r in Ec. now subst.
  - destruct rest as [|x rest]; [inversion H|]. cbn [length seq] in H.
    inversion H as [|? ? ? ? (Hi & Hj & Hs) Hr]; subst. cbn [fst snd] in *.
    cbn [evaluate_from]. rewrite (nth_error_nz pre (x :: rest) i Hi), (nth_error_nz pre (x :: rest) j Hj).
    rewrite Hs. replace (nz (pre ++ x :: rest) (length pre)) with x
      by (rewrite <- (Nat.add_0_r (length pre)), nz_app_r; reflexivity).
    apply (IH (pre ++ [x]) rest).
    + now rewrite <- app_assoc.
    + rewrite app_length. cbn [length]. rewrite Nat.add_1_r. exact Hr.
Qed.

Lemma Forall2_impl' {A B} (R S : A -> B -> Prop) l l' :
  (forall a b, In a l -> R a b -> S a b) -> Forall2 R l l' -> Forall2 S l l'.
Proof.
  intros H F. induction F as [|a b l l' Hab Hl IH]; constructor.
  - apply H; [now left|exact Hab].
  - apply IH. intros a' b' Hin. apply H. now right.
Qed.

Lemma Forall2_length' {A B} (R : A -> B -> Prop) l l' : Forall2 R l l' -> length l = length l'.
Proof. induction 1; cbn [length]; congruence. Qed.

Theorem program_evaluate c p :
  program c = Ok p -> evaluate p = Ok c /\ length p = (length c - 1)%nat.
Proof.
  intros Hp. apply program_ok_iff in Hp. destruct Hp as [([r Er] & _ & _) Hl].
  apply program_loop_ok in Hl. split.
  - unfold evaluate. apply (evaluate_from_derives c p [1] r Er).
    cbn [length]. replace (length r) with (length c - 1)%nat by (rewrite Er; cbn [length]; lia).
    revert Hl. apply Forall2_impl'. intros k [i j] Hk [t Et]. apply in_seq in Hk.
    assert (Hin : In (i, j) (ops c k)) by (rewrite Et; now left).
    apply in_ops in Hin; [|lia]. unfold derives_at. cbn [fst snd]. split; [lia|]. split; [lia|tauto].
  - apply Forall2_length' in Hl. rewrite seq_length in Hl. now symmetry.
Qed.

(* ------------------------------------------------------------------------------------------ *)
(* facts about is_chain / asc for the properties that build on C02 *)

Definition inc (l : list Z) : Prop := forall i j, (i < j < length l)%nat -> nz l i < nz l j.

Lemma asc_inc c : asc c -> inc c.
Proof. intros [_ H]. exact H. Qed.

Lemma nz_In (c : list Z) i : (i < length c)%nat -> In (nz c i) c.
Proof. intros H. unfold nz. now apply nth_In. Qed.

Lemma In_nz (c : list Z) x : In x c -> exists i, (i < length c)%nat /\ nz c i = x.
Proof. intros H. destruct (In_nth c x 0 H) as (i & Hi & E). now exists i. Qed.

(* every element of a valid chain is positive *)
Lemma chain_pos_nz c : is_chain c -> forall k, (k < length c)%nat -> 1 <= nz c k.
Proof.
  intros ([r Er] & _ & _ & Hs) k. induction k as [k IH] using lt_wf_ind. intros Hk.
  destruct k as [|k]; [rewrite Er; cbn; lia|].
  destruct (Hs (S k) ltac:(lia)) as (i & j & Hij & E).
  pose proof (IH i ltac:(lia) ltac:(lia)). pose proof (IH j ltac:(lia) ltac:(lia)). lia.
Qed.

Lemma chain_pos c x : is_chain c -> In x c -> 1 <= x.
Proof. intros Hc Hx. destruct (In_nz c x Hx) as (i & Hi & <-). now apply chain_pos_nz. Qed.

Lemma inc_NoDup l : inc l -> NoDup l.
Proof.
  intros H. apply (NoDup_nth l 0). intros i j Hi Hj E.
  destruct (Nat.lt_total i j) as [Hl|[He|Hl]]; [|exact He|].
  - pose proof (H i j ltac:(lia)) as Hlt. unfold nz in Hlt. lia.
  - pose proof (H j i ltac:(lia)) as Hlt. unfold nz in Hlt. lia.
Qed.

Lemma nz_last (l : list Z) : l <> [] -> nz l (length l - 1) = last l 0.
Proof.
  intros H. destruct (exists_last H) as (l' & x & ->). rewrite last_last, app_length. cbn [length].
  replace (length l' + 1 - 1)%nat with (length l' + 0)%nat by lia. now rewrite nz_app_r.
Qed.

(* in an increasing list every element is at most the last one *)
Lemma inc_le_last l x : inc l -> In x l -> x <= last l 0.
Proof.
  intros Hi Hx. destruct (In_nz l x Hx) as (i & Hlt & <-).
  assert (Hne : l <> []) by (intros ->; cbn [length] in Hlt; lia).
  rewrite <- (nz_last l Hne). destruct (Nat.eq_dec i (length l - 1)) as [->|Hn]; [lia|].
  pose proof (Hi i (length l - 1)%nat ltac:(lia)). lia.
Qed.

Lemma inc_app l m : inc l -> inc m -> (forall x y, In x l -> In y m -> x < y) -> inc (l ++ m).
Proof.
  intros Hl Hm Hlm i j Hij. rewrite app_length in Hij.
  destruct (Nat.lt_ge_cases j (length l)) as [Hj|Hj].
  - rewrite !nz_app_l by lia. apply Hl. lia.
  - replace j with (length l + (j - length l))%nat by lia. rewrite nz_app_r.
    destruct (Nat.lt_ge_cases i (length l)) as [Hi|Hi].
    + rewrite nz_app_l by lia. apply Hlm; apply nz_In; lia.
    + replace i with (length l + (i - length l))%nat by lia. rewrite nz_app_r. apply Hm. lia.
Qed.

(* appending the sum of two members that is not yet present keeps a chain valid *)
Lemma is_chain_snoc c x :
  is_chain c -> (exists i j, (i <= j < length c)%nat /\ nz c i + nz c j = x) -> ~ In x c ->
  is_chain (c ++ [x]).
Proof.
  intros Hc (i & j & Hij & Hs) Hx. pose proof (chain_pos_nz c Hc) as Hpos.
  destruct Hc as ([r Er] & Hnd & H0 & Hsum).
  assert (Hx2 : 2 <= x) by (pose proof (Hpos i ltac:(lia)); pose proof (Hpos j ltac:(lia)); lia).
  split; [exists (r ++ [x]); rewrite Er; reflexivity|]. split; [|split].
  - apply NoDup_app'; [exact Hnd|repeat constructor; intros []|].
    intros y Hy [<-|[]]. exact (Hx Hy).
  - rewrite in_app_iff. intros [H|[H|[]]]; [exact (H0 H)|lia].
  - intros k Hk. rewrite app_length in Hk. cbn [length] in Hk.
    destruct (Nat.eq_dec k (length c)) as [->|Hn].
    + exists i, j. split; [lia|]. rewrite !nz_app_l by lia.
      rewrite <- (Nat.add_0_r (length c)), nz_app_r. exact Hs.
    + destruct (Hsum k ltac:(lia)) as (i' & j' & Hij' & Hs'). exists i', j'. split; [lia|].
      rewrite !nz_app_l by lia. exact Hs'.
Qed.

Lemma asc_snoc c x : asc c -> last c 0 < x -> asc (c ++ [x]).
Proof.
  intros [[r Er] Hi] Hx. split; [exists (r ++ [x]); rewrite Er; reflexivity|].
  apply inc_app; [exact Hi|intros i j H; cbn [length] in H; lia|].
  intros a b Ha [<-|[]]. pose proof (inc_le_last c a Hi Ha). lia.
Qed.

Lemma NoDup_app_l' {A} (l m : list A) : NoDup (l ++ m) -> NoDup l.
Proof.
  induction l as [|x t IH]; cbn [app]; intros H; [constructor|].
  inversion H as [|? ? Hx Ht]; subst. constructor; [|now apply IH].
  intros Hin. apply Hx. apply in_app_iff. now left.
Qed.

(* a prefix of a valid chain is a valid chain *)
Lemma is_chain_firstn c n : is_chain c -> (1 <= n)%nat -> is_chain (firstn n c).
Proof.
  intros ([r Er] & Hnd & H0 & Hs) Hn. split; [|split; [|split]].
  - rewrite Er. destruct n as [|n]; [lia|]. cbn [firstn]. now exists (firstn n r).
  - rewrite <- (firstn_skipn n c) in Hnd. now apply NoDup_app_l' in Hnd.
  - intros H. apply H0. rewrite <- (firstn_skipn n c). apply in_app_iff. now left.
  - intros k Hk. rewrite firstn_length in Hk. destruct (Hs k ltac:(lia)) as (i & j & Hij & E).
    exists i, j. split; [lia|]. rewrite !nz_firstn by lia. exact E.
Qed.

(* ------------------------------------------------------------------------------------------ *)
(* statements in the form used by props/C02.v *)

Theorem ops_exact c k : (k < length c)%nat ->
  exists l, ops_go c k = Ok l /\ NoDup l /\
            forall i j, In (i, j) l <-> (i <= j < k)%nat /\ nz c i + nz c j = nz c k.
Proof.
  intros Hk. exists (filter (sol c k) (pairs 0 k)). split; [now apply ops_go_in_range|].
  rewrite <- ops_spec by lia. split; [apply NoDup_ops; lia|]. intros i j. apply in_ops. lia.
Qed.

Theorem ops_paths_agree c k :
  (forall i j, (i < j)%nat -> (j < k)%nat -> nz c i < nz c j) -> ops_2p c k = ops_quad c k.
Proof. exact (ops_2p_quad c k). Qed.

Theorem op_at_first c k o : (k <= length c)%nat ->
  (op_at c k = Ok o <-> exists t, ops c k = o :: t) /\
  (op_at c k = Err ($"notsum") <-> ops c k = []).
Proof.
  intros _. unfold op_at. destruct (ops c k) as [|o' t]; split; split; try discriminate; try reflexivity.
  - intros [t E]. discriminate.
  - intros E. injection E as ->. now exists t.
  - intros [t' E]. injection E as -> _. reflexivity.
Qed.

Theorem validate_total c : validate c = Ok tt \/ exists cls, validate c = Err cls.
Proof. exact (validate_cases c). Qed.
