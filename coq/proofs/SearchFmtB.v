(* C14, part 7: `addchain fmt -b` on the script that search prints.

   fmt -b = parse, Translate, acc.Build on the translated program (operands carry the statement names:
   model/Cli.v build_named, C15), print.  For the translated program ir of a built script (SearchGen
   built_ir): CanonicalizeOperands succeeds (identifiers are a function of the index), every Output is
   canonical (outputs are fresh indexes), the naming passes leave every index with the name its value
   and index determine (the statement name it already had, or the name the passes generate), so
   builder.process is Build.b_loop with that table, and BuildProofs.build_translate_loop applies to ir as
   it did to the decompiled program: no assertion failure, at least one statement, and re-translating the
   new statements emits ir again.  Hence fmt -b succeeds and its output loads to the same chain. *)
From Coq Require Import String.
From Coq Require Import List NArith ZArith Lia Bool Arith.
From AV Require Import model.Proto model.Chain model.Program model.Ir model.Ast model.Bits.
From AV Require Import model.Alloc proofs.AllocProofs.
From AV Require Import proofs.BuildTranslateAux.
From AV Require Import model.Decompile model.Naming model.Build proofs.NamingProofs proofs.DecompileProofs proofs.BuildProofs.
From AV Require proofs.ProgramProofs.
From AV Require model.Printer model.Peg model.Translate model.Gen model.Cli proofs.CliProofs proofs.GenProofs
  proofs.PegProofs proofs.SearchBridge proofs.SearchGen proofs.SearchMain.
Import ListNotations.
Open Scope Z_scope.

(* ---- the two association-list lookups are the same function ---- *)
Lemma zl_eq : forall (A : Type) k (m : list (Z * A)), Alloc.zlookup k m = Naming.zlookup k m.
Proof. intros A k m. induction m as [|[k' v] t IH]; [reflexivity|]. cbn [Alloc.zlookup Naming.zlookup]. rewrite IH. reflexivity. Qed.

(* ---- CanonicalizeOperands keeps "identifier = [] or the name of the index" and only adds operand indexes ---- *)
Lemma canon_operand_inv nmap m o m' : MInv nmap m -> (oname o = [] \/ oname o = nmap (oindex o)) ->
  canon_operand m o = Ok m' ->
  MInv nmap m' /\ (forall k, Alloc.zlookup k m' <> None <-> Alloc.zlookup k m <> None \/ k = oindex o).
Proof.
  intros HM Ho E. destruct (canon_operand_ok nmap m o HM Ho) as (m1 & E1 & HM1 & K1).
  rewrite E in E1. injection E1 as <-. split; assumption.
Qed.

Lemma canon_operands_inv nmap : forall os m m', MInv nmap m ->
  (forall o, In o os -> oname o = [] \/ oname o = nmap (oindex o)) ->
  canon_operands m os = Ok m' ->
  MInv nmap m' /\ (forall k, Alloc.zlookup k m' <> None <-> Alloc.zlookup k m <> None \/ In k (map oindex os)).
Proof.
  intros os m m' HM Ho E. destruct (canon_operands_ok nmap os m HM Ho) as (m1 & E1 & HM1 & K1).
  rewrite E in E1. injection E1 as <-. split; assumption.
Qed.

Lemma canonicalize_inv nmap : forall P m mf, MInv nmap m -> consistent nmap P ->
  canonicalize m P = Ok mf ->
  MInv nmap (fst mf) /\
  (forall k, Alloc.zlookup k (fst mf) <> None -> Alloc.zlookup k m <> None \/ In k (operand_indexes P)).
Proof.
  induction P as [|i r IH]; intros m mf HM Hc E; cbn [canonicalize] in E.
  - injection E as <-. cbn [fst]. split; [exact HM|]. intros k H. left. exact H.
  - destruct (consistent_cons _ _ _ Hc) as [Hci Hcr].
    destruct (canon_operands m (inputs (iopn i))) as [m1| | |] eqn:E1; cbn [obind] in E; try discriminate.
    destruct (canon_operand m1 (iout i)) as [m2| | |] eqn:E2; cbn [obind] in E; try discriminate.
    destruct (canonicalize m2 r) as [mf'| | |] eqn:E3; cbn [obind] in E; try discriminate.
    injection E as <-. cbn [fst].
    destruct (canon_operands_inv nmap _ _ _ HM (fun o Ho => Hci o ltac:(unfold operands; apply in_or_app; left; exact Ho)) E1) as (HM1 & K1).
    destruct (canon_operand_inv nmap _ _ _ HM1 (Hci (iout i) ltac:(unfold operands; apply in_or_app; right; left; reflexivity)) E2) as (HM2 & K2).
    destruct (IH _ _ HM2 Hcr E3) as (HM3 & K3). split; [exact HM3|].
    intros k Hk. unfold operand_indexes. cbn [flat_map]. destruct (K3 k Hk) as [H|H].
    + apply K2 in H. destruct H as [H| ->].
      * apply K1 in H. destruct H as [H|H]; [left; exact H|].
        right. apply in_or_app. left. apply in_or_app. left. exact H.
      * right. apply in_or_app. left. apply in_or_app. right. left. reflexivity.
    + right. apply in_or_app. right. exact H.
Qed.

(* ---- NameOperands on a table whose keys are chain indexes ---- *)
Lemma name_pass_spec f chain : forall tbl,
  (forall k, In k (map fst tbl) -> 0 <= k < Z.of_nat (length chain)) ->
  exists t, name_pass f chain tbl = Ok t /\ map fst t = map fst tbl /\
    forall k, Naming.zlookup k t =
      match Naming.zlookup k tbl with
      | Some [] => Some (f (nth (Z.to_nat k) chain 0))
      | x => x
      end.
Proof.
  induction tbl as [|[k0 nm] tbl IH]; intros Hk; cbn [name_pass].
  - exists []. repeat split.
  - destruct (IH (fun j Hj => Hk j (or_intror Hj))) as (t & Et & Ef & Hl).
    assert (H0 : 0 <= k0 < Z.of_nat (length chain)) by (apply Hk; left; reflexivity).
    unfold name_one. cbn [fst snd]. destruct nm as [|ch nm].
    + rewrite (proj2 (Z.ltb_ge k0 0)) by lia.
      destruct (nth_error chain (Z.to_nat k0)) as [x|] eqn:Ex; [|apply nth_error_None in Ex; lia].
      cbn [obind]. rewrite Et. cbn [obind]. eexists. split; [reflexivity|]. split; [cbn [map fst]; rewrite Ef; reflexivity|].
      intros k. cbn [Naming.zlookup]. destruct (k0 =? k) eqn:Ek; [|apply Hl].
      apply Z.eqb_eq in Ek. subst k. rewrite (nth_error_nth _ _ 0 Ex). reflexivity.
    + cbn [obind]. rewrite Et. cbn [obind]. eexists. split; [reflexivity|]. split; [cbn [map fst]; rewrite Ef; reflexivity|].
      intros k. cbn [Naming.zlookup]. destruct (k0 =? k); [reflexivity|apply Hl].
Qed.

Lemma zlookup_in_keys : forall (A : Type) k (m : list (Z * A)), Naming.zlookup k m <> None <-> In k (map fst m).
Proof.
  intros A k m. induction m as [|[k' v] t IH]; cbn [Naming.zlookup map fst]; [split; [congruence|intros []]|].
  destruct (k' =? k) eqn:E.
  - apply Z.eqb_eq in E. split; [left; exact E|discriminate].
  - apply Z.eqb_neq in E. rewrite IH. split; [right; assumption|intros [H|H]; [contradiction|exact H]].
Qed.

(* ---- every Output of a well-formed program is canonical ---- *)
Lemma out_idents_canonical tbl : forall P d l seen, AllocProofs.wf_from d l P ->
  (forall x, In x d -> x <= l) -> (forall x, In x seen -> x <= l) ->
  Cli.out_idents tbl seen P = map (fun i => (i, Naming.ident_of tbl (oindex (iout i)))) P.
Proof.
  induction P as [|i r IH]; intros d l seen Hwf Hd Hs; [reflexivity|].
  destruct Hwf as (Hlt & Hin & Hr). cbn [Cli.out_idents map].
  assert (Hnot : existsb (Z.eqb (oindex (iout i))) (Naming.input_indexes i ++ seen) = false).
  { apply not_true_is_false. intros H. apply existsb_exists in H. destruct H as (x & Hx & Ex).
    apply Z.eqb_eq in Ex. subst x. unfold out_index in Hlt. apply in_app_or in Hx. destruct Hx as [Hx|Hx].
    - specialize (Hin _ Hx). specialize (Hd _ Hin). lia.
    - specialize (Hs _ Hx). lia. }
  rewrite Hnot. cbn [negb]. f_equal.
  apply (IH (out_index i :: d) (out_index i)); [exact Hr| |].
  - intros x [<-|Hx]; [lia|]. specialize (Hd _ Hx). lia.
  - intros x [<-|Hx]; [unfold out_index; lia|]. apply in_app_or in Hx. destruct Hx as [Hx|Hx].
    + specialize (Hin _ Hx). specialize (Hd _ Hin). lia.
    + specialize (Hs _ Hx). lia.
Qed.

(* ---- the two models of pass.Compile, the other direction ---- *)
Lemma tcompile_ncompile : forall P p p', Translate.compile_loop p P = Ok p' -> Naming.compile_loop p P = Ok p'.
Proof.
  induction P as [|i r IH]; intros p p' H; cbn [Translate.compile_loop Naming.compile_loop] in H |- *; [exact H|].
  rewrite CliProofs.compile_step_is_step in H.
  assert (E : call_of (iopn i) = match iopn i with
                                 | IAdd x y => CAdd (oindex x) (oindex y)
                                 | IDouble x => CDouble (oindex x)
                                 | IShift x s => CShift (oindex x) s
                                 end) by (destruct (iopn i); reflexivity).
  rewrite E. destruct (step p _) as [p1 [out| | |]]; cbn [obind] in H; try discriminate.
  destruct (out =? oindex (iout i)); [apply IH; exact H|discriminate].
Qed.

Lemma cop_idem : forall o, cop (cop o) = cop o.
Proof.
  intros [a b]. unfold cop. cbn [fst snd]. destruct (b <? a)%nat eqn:E; cbn [fst snd]; [|rewrite E; reflexivity].
  apply Nat.ltb_lt in E. rewrite (proj2 (Nat.ltb_ge a b)) by lia. reflexivity.
Qed.

(* ---- acc.Build on the translated program of a built script ---- *)
Theorem build_named_built : forall ir ops c,
  Translate.compile ir = Ok ops -> evaluate ops = Ok c -> NoDup c -> Z.of_nat (length ops) < 2 ^ 63 ->
  GenProofs.nz_shifts ir -> wf_ir ir -> ir <> [] -> consistent (SearchGen.built_nmap c) ir ->
  exists t', Cli.build_named ir = Ok t' /\ wf_script t' = true /\
             translate_eval t' = Ok (map cop ops, c).
Proof.
  intros ir ops c Ect Hev Hnd Hlen Hnz Hwfir Hne Hcons.
  assert (Ec : Naming.compile ir = Ok ops) by (apply tcompile_ncompile; exact Ect).
  assert (Hps : pos_shifts ir).
  { intros i Hi. specialize (Hnz i Hi). unfold width. destruct (iopn i); try lia. }
  assert (Hwfo : wf_program ops) by (eapply CliProofs.ncompile_wf; [exact Ec|apply ProgramProofs.wf_nil]).
  destruct (evaluate_spec ops Hwfo) as (c' & Ec' & Hlc & Hpos). rewrite Hev in Ec'. injection Ec' as <-.
  destruct (compile_facts ir [] ops Ec Hps) as (Hwfq & Hnaf & _ & Hidx & Hcc).
  change (Z.of_nat (length (@nil op)) + 1) with 1 in Hwfq, Hnaf. change (map cop []) with (@nil op) in Hcc.
  assert (Hrange : forall x, In x (operand_indexes ir) -> 0 <= x < Z.of_nat (length c)).
  { intros x Hx. specialize (Hidx x Hx). lia. }
  (* CanonicalizeOperands *)
  unfold Cli.build_named.
  destruct (canonicalize_ok (SearchGen.built_nmap c) ir [0] 0 [] Hwfir) as (m' & Ecan & _).
  { intros x [<-|[]]. lia. } { exact Hcons. } { intros k n H. discriminate H. } { intros k H. exfalso. apply H. reflexivity. }
  rewrite Ecan. cbn [obind fst].
  destruct (canonicalize_inv (SearchGen.built_nmap c) ir [] _ (fun k n H => ltac:(discriminate H)) Hcons Ecan) as (HM & Hkeys).
  cbn [fst] in HM, Hkeys.
  assert (Hk' : forall k, In k (map fst m') -> 0 <= k < Z.of_nat (length c)).
  { intros k Hk. apply Hrange. apply zlookup_in_keys in Hk. rewrite <- zl_eq in Hk.
    destruct (Hkeys k Hk) as [H|H]; [exfalso; apply H; reflexivity|exact H]. }
  assert (Eev : eval_ir ir = Ok c) by (unfold eval_ir; rewrite Ec; exact Hev).
  rewrite Eev. cbn [obind].
  destruct (name_pass_spec name_byte c m' Hk') as (t1 & Et1 & Ef1 & Hl1). rewrite Et1. cbn [obind].
  destruct (name_pass_spec name_xrun c t1 ltac:(rewrite Ef1; exact Hk')) as (t2 & Et2 & Ef2 & Hl2). rewrite Et2. cbn [obind].
  (* the identifier the builder sees for every output *)
  assert (Hname : forall k, In k (map out ir) ->
            0 <= k < Z.of_nat (length c) /\ nameof t2 k = stmt_name (nth (Z.to_nat k) c 0) k).
  { intros k Hk. assert (Hr : 0 <= k < Z.of_nat (length c)) by (apply Hrange, out_in_operand_indexes, Hk).
    split; [exact Hr|]. unfold nameof, ident_of. rewrite Hl2, Hl1.
    assert (Hkey : Alloc.zlookup k m' <> None).
    { destruct (canonicalize_ok (SearchGen.built_nmap c) ir [0] 0 [] Hwfir) as (m'' & Ecan' & K).
      { intros x [<-|[]]. lia. } { exact Hcons. } { intros k0 n H. discriminate H. } { intros k0 H. exfalso. apply H. reflexivity. }
      rewrite Ecan in Ecan'. injection Ecan' as <-. apply K. right. right. exact Hk. }
    rewrite <- zl_eq. destruct (Alloc.zlookup k m') as [n|] eqn:En; [|contradiction].
    destruct (HM k n En) as [-> | ->].
    - unfold stmt_name, final_name. destruct (name_byte (nth (Z.to_nat k) c 0)); reflexivity.
    - unfold SearchGen.built_nmap. destruct (stmt_name (nth (Z.to_nat k) c 0) k) eqn:Es.
      + exfalso. revert Es. apply b_name_nonempty.
      + reflexivity. }
  assert (Hval : forall k, 0 <= k < Z.of_nat (length c) -> 1 <= nth (Z.to_nat k) c 0).
  { intros k Hk. apply Hpos. apply nth_In. lia. }
  assert (Hinj : forall i j, In i (map out ir) -> In j (map out ir) -> nameof t2 i = nameof t2 j -> i = j).
  { intros i j Hi Hj E. destruct (Hname i Hi) as [Ri Ei]. destruct (Hname j Hj) as [Rj Ej].
    rewrite Ei, Ej in E. pose proof (Hval i Ri) as Vi. pose proof (Hval j Rj) as Vj.
    assert (Pi : 0 <= nth (Z.to_nat i) c 0) by lia. assert (Pj : 0 <= nth (Z.to_nat j) c 0) by lia.
    destruct (stmt_name_inj _ _ _ _ Pi Pj (proj1 Ri) (proj1 Rj) E) as [Ev|Ev]; [|exact Ev].
    assert (Z.to_nat i = Z.to_nat j); [|lia].
    apply (proj1 (NoDup_nth c 0) Hnd); [lia|lia|exact Ev]. }
  (* builder.process is Build's loop with the table t2 *)
  rewrite (out_idents_canonical t2 ir [0] 0 [] Hwfir) by (intros x [<-|[]]; lia) || (intros x []).
  destruct (build_translate_loop t2 (read_counts_ir ir) ir Hinj Hwfq (read_counts_ir_reads ir))
    as (b & ts0 & Eb & Etr0 & Eem0 & En0 & Hvars0 & Hst0).
  unfold Cli.process_n. destruct ir as [|i0 ir'] eqn:Eir; [contradiction|]. rewrite <- Eir in *.
  replace (map (fun i => (i, ident_of t2 (oindex (iout i)))) ir) with
    (map (fun i => (i, ident_of t2 (oindex (iout i)))) ir) by reflexivity.
  assert (Emap : exists x l, map (fun i => (i, ident_of t2 (oindex (iout i)))) ir = x :: l) by (rewrite Eir; cbn [map]; eauto).
  destruct Emap as (x0 & l0 & Emap). rewrite Emap, <- Emap.
  rewrite <- CliProofs.b_loop_as_n, Eb. cbn [obind].
  assert (Hsne : b_stmts b <> []).
  { intros E. rewrite E in Etr0. cbn in Etr0. injection Etr0 as <-. cbn in Eem0. rewrite Eir in Eem0. discriminate Eem0. }
  destruct (tr_clear_last _ _ Hsne Etr0) as (init & s & ts' & Es & Ecl & Etr' & Eem' & Hv').
  { intros v Hv. destruct (Hvars0 _ _ Hv) as [E _]. symmetry in E. exact (nameof_nonempty t2 v E). }
  rewrite Ecl. exists (init ++ [mkStmt [] (sexpr s)]). split; [reflexivity|].
  (* expressions and names of the new statements *)
  assert (Hgood : good_state (Z.of_nat (length ops)) b).
  { apply (b_loop_good t2 (read_counts_ir ir) (Z.of_nat (length ops)) ir b_init b); [|intros i Hi|exact Eb].
    - split; [intros k e Hk; discriminate|intros s1 []].
    - assert (Hio : In (out i) (map out ir)) by (apply in_map; exact Hi).
      destruct (Hname _ Hio) as [Rk Enk]. pose proof (Hval _ Rk) as Hv1.
      assert (Pv : 0 <= nth (Z.to_nat (out i)) c 0) by lia.
      destruct (stmt_name_shape (nth (Z.to_nat (out i)) c 0) (out i) Pv (proj1 Rk)) as [Hsh _].
      rewrite <- Enk in Hsh. destruct (name_shape_legal _ Hsh) as [L1 L2].
      split; [|split; [|split; [exact L1|exact L2]]].
      + intros x Hx. apply Hidx. eapply input_in_operand_indexes; eauto.
      + assert (H1 : 1 <= 1) by lia. pose proof (wfrom_width ir 1 Hwfq H1 i Hi). specialize (Hrange (out i) (out_in_operand_indexes _ _ Hio)). lia. }
  split.
  - apply wf_script_intro.
    + intros s0 Hs0. destruct (Hst0 s0) as (k & Hk & Ek); [rewrite Es; apply in_or_app; left; exact Hs0|].
      destruct (Hname k Hk) as [Rk Enk]. pose proof (Hval _ Rk) as Hv1.
      assert (Pv : 0 <= nth (Z.to_nat k) c 0) by lia.
      destruct (stmt_name_shape (nth (Z.to_nat k) c 0) k Pv (proj1 Rk)) as [Hsh _].
      destruct (name_shape_legal _ Hsh) as [L1 _]. rewrite Ek, Enk. split; [exact L1|].
      apply (good_wf (Z.of_nat (length ops))); [exact Hlen|]. apply (proj2 Hgood). rewrite Es. apply in_or_app. left. exact Hs0.
    + apply (good_wf (Z.of_nat (length ops))); [exact Hlen|]. apply (proj2 Hgood). rewrite Es. apply in_or_app. right. left. reflexivity.
  - unfold translate_eval, translate_compile, translate. rewrite Etr'. cbn [obind]. rewrite Eem', Eem0.
    unfold Naming.compile. rewrite Hcc. cbn [obind]. unfold evaluate. rewrite evaluate_from_cop.
    fold (evaluate ops). rewrite Hev. reflexivity.
Qed.

(* ---- fmt -b on search's report ---- *)
From AV Require Import model.Search.

Theorem report_fmtb : forall p c text,
  evaluate p = Ok c -> NoDup c -> Z.of_nat (length p) + 1 < 2 ^ 63 -> report p = Ok text ->
  exists out ir', Cli.fmt_out true text = Ok out /\ Translate.load_m out = Ok (ir', map cop p, c).
Proof.
  intros p c text He Hnd Hlen Hr.
  destruct p as [|o p'] eqn:Ep.
  - (* the one-element chain: `return  1` is a fixed point *)
    cbn in He. injection He as <-. rewrite SearchMain.report_nil in Hr. injection Hr as <-.
    eexists _, _. split; [vm_compute; reflexivity|]. vm_compute. reflexivity.
  - rewrite <- Ep in *. assert (Hpne : p <> []) by (rewrite Ep; discriminate).
    destruct (SearchGen.built_ir p c He Hnd Hpne Hlen) as (t & ir & Eb & Hw & Etrans & Ecomp & Eval & Hnz & Hwfir & Hirne & Hcons).
    unfold report in Hr. rewrite Eb in Hr. cbn [obind] in Hr. injection Hr as <-.
    assert (Ev : evaluate (map cop p) = Ok c) by (unfold evaluate; rewrite evaluate_from_cop; exact He).
    destruct (build_named_built ir (map cop p) c Ecomp Ev Hnd ltac:(rewrite map_length; lia) Hnz Hwfir Hirne Hcons)
      as (t' & Ebn & Hw' & Ete).
    assert (Eidem : map cop (map cop p) = map cop p).
    { rewrite map_map. apply map_ext. intros a. apply cop_idem. }
    rewrite Eidem in Ete.
    destruct (SearchBridge.aux_load t' (map cop p) c Hw' Ete ltac:(rewrite map_length; lia)) as (ir' & Hl).
    exists (Printer.print_script t'), ir'. split; [|exact Hl].
    unfold Cli.fmt_out. rewrite (PegProofs.roundtrip t Hw). cbn [obind]. unfold Cli.fmt_tree.
    rewrite Etrans. cbn [obind]. rewrite Ebn. reflexivity.
Qed.

Theorem consistent_fmtb : forall w n rs o,
  Forall (SearchMain.good_ares n) rs -> Forall SearchMain.fits_slice rs -> SearchMain.consistent_report w n rs o ->
  exists out ir' ops c, Cli.fmt_out true (so_stdout o) = Ok out /\
    Translate.load_m out = Ok (ir', ops, c) /\ last c 0 = n /\ is_chain c.
Proof.
  intros w n rs o Hg Hs (_ & (b & Hb & _ & Hr) & _).
  rewrite Forall_forall in Hg, Hs. pose proof (nth_error_In _ _ Hb) as Hin.
  destruct (Hg b Hin) as (_ & Hch & Hlast & _ & Hev).
  assert (Hnd : NoDup (ar_chain b)) by apply Hch.
  destruct (report_fmtb (ar_prog b) (ar_chain b) (so_stdout o) Hev Hnd (Hs b Hin) Hr) as (out & ir' & Ef & El).
  exists out, ir', (map cop (ar_prog b)), (ar_chain b). auto.
Qed.
