(* Chain facts needed by C10 and C11, proved locally (ported from proto_appendix/F1.v):
   Chain.ops lists exactly the pairs i <= j < k with c[i] + c[j] = c[k], without repetition, for
   every element order; Chain.program succeeds on every is_chain and returns such pairs. *)
From Coq Require Import List ZArith Lia Bool Arith FinFun.
From AV Require Import model.Proto model.Chain.
Import ListNotations.
Local Open Scope nat_scope.

(* ---------- pairs / rows ---------- *)
Definition S_ (c : list Z) (k lo hi : nat) : list op := filter (sol c k) (pairs lo hi).

Lemma pairs_unfold lo hi : lo < hi -> pairs lo hi = row lo hi ++ pairs (S lo) hi.
Proof.
  intros H. unfold pairs. replace (hi - lo) with (S (hi - S lo)) by lia. reflexivity.
Qed.
Lemma pairs_empty lo hi : hi <= lo -> pairs lo hi = [].
Proof. intros H. unfold pairs. replace (hi - lo) with 0 by lia. reflexivity. Qed.

Lemma row_last i hi : i < hi -> row i hi = row i (hi - 1) ++ [(i, hi - 1)].
Proof.
  intros H. unfold row. replace (hi - i) with (S (hi - 1 - i)) by lia.
  rewrite seq_S, map_app. cbn [map]. do 3 f_equal. lia.
Qed.

Lemma filter_nil {A} (f : A -> bool) l : (forall x, In x l -> f x = false) -> filter f l = [].
Proof.
  induction l as [|x t IH]; intros H; cbn [filter]; [reflexivity|].
  rewrite (H x) by (left; reflexivity). apply IH. intros y Hy. apply H. right. exact Hy.
Qed.
Lemma filter_flat_map {A B} (f : B -> bool) (g : A -> list B) l :
  filter f (flat_map g l) = flat_map (fun a => filter f (g a)) l.
Proof. induction l as [|x t IH]; cbn [flat_map filter]; [reflexivity|]. now rewrite filter_app, IH. Qed.
Lemma flat_map_ext_in' {A B} (f g : A -> list B) l :
  (forall a, In a l -> f a = g a) -> flat_map f l = flat_map g l.
Proof.
  induction l as [|x t IH]; intros H; cbn [flat_map]; [reflexivity|].
  rewrite (H x) by (left; reflexivity). f_equal. apply IH. intros y Hy. apply H. right. exact Hy.
Qed.
Lemma in_row i j i' hi : In (i, j) (row i' hi) <-> i = i' /\ i' <= j < hi.
Proof.
  unfold row. rewrite in_map_iff. split.
  - intros (y & E & Hy). injection E as <- <-. apply in_seq in Hy. lia.
  - intros (-> & H). exists j. split; [reflexivity|apply in_seq; lia].
Qed.

Lemma in_pairs k i j : In (i, j) (pairs 0 k) <-> i <= j < k.
Proof.
  unfold pairs. rewrite in_flat_map. split.
  - intros (x & Hx & Hin). apply in_seq in Hx. apply in_row in Hin. lia.
  - intros H. exists i. split; [apply in_seq; lia|]. apply in_row. lia.
Qed.

Lemma NoDup_app_intro {A} (a b : list A) :
  NoDup a -> NoDup b -> (forall x, In x a -> In x b -> False) -> NoDup (a ++ b).
Proof.
  induction a as [|x a IH]; intros Ha Hb Hd; cbn [app]; [assumption|].
  inversion Ha as [|? ? Hnx Ha']; subst. constructor.
  - rewrite in_app_iff. intros [H|H]; [contradiction|]. apply (Hd x); [left; reflexivity|assumption].
  - apply IH; auto. intros y Hy1 Hy2. apply (Hd y); [right; assumption|assumption].
Qed.

Lemma NoDup_pairs k : NoDup (pairs 0 k).
Proof.
  unfold pairs. rewrite Nat.sub_0_r.
  generalize (seq_NoDup k 0). generalize (seq 0 k) as xs.
  induction xs as [|i xs IH]; intros Hnd; cbn [flat_map]; [constructor|].
  inversion Hnd as [|? ? Hni Hnd']; subst.
  apply NoDup_app_intro; auto.
  - unfold row. apply Injective_map_NoDup; [intros a b E; now injection E|apply seq_NoDup].
  - intros [a b] H1 H2. apply in_row in H1 as [-> _].
    apply in_flat_map in H2 as (x & Hx & Hin). apply in_row in Hin as [-> _]. contradiction.
Qed.

(* ---------- two-pointer path = quadratic path on an ascending prefix ---------- *)
Section Asc.
Variable c : list Z.
Variable k : nat.
Hypothesis Hasc : forall i j, i < j -> j < k -> (nz c i < nz c j)%Z.

Lemma asc_le i j : i <= j -> j < k -> (nz c i <= nz c j)%Z.
Proof using Hasc.
  intros H1 H2. destruct (Nat.eq_dec i j) as [->|]; [lia|]. specialize (Hasc i j ltac:(lia) H2). lia.
Qed.

Lemma case_le l hi : l < hi -> hi <= k -> (nz c l + nz c (hi - 1) <= nz c k)%Z ->
  S_ c k l hi = (if sol c k (l, hi - 1) then [(l, hi - 1)] else []) ++ S_ c k (S l) hi.
Proof using Hasc.
  intros Hl Hh Hs. unfold S_. rewrite pairs_unfold by assumption. rewrite filter_app. f_equal.
  rewrite row_last by assumption. rewrite filter_app. cbn [filter].
  rewrite filter_nil; [destruct (sol c k (l, hi - 1)); reflexivity|].
  intros [i j] Hin. apply in_row in Hin as (-> & Hj). unfold sol. cbn [fst snd].
  apply Z.eqb_neq. specialize (Hasc j (hi - 1) ltac:(lia) ltac:(lia)). lia.
Qed.

Lemma case_gt l hi : l < hi -> hi <= k -> (nz c k < nz c l + nz c (hi - 1))%Z ->
  S_ c k l hi = S_ c k l (hi - 1).
Proof using Hasc.
  intros Hl Hh Hs. unfold S_, pairs. rewrite !filter_flat_map.
  replace (hi - l) with (S (hi - 1 - l)) by lia. rewrite seq_S, flat_map_app. cbn [flat_map].
  replace (l + (hi - 1 - l)) with (hi - 1) by lia.
  assert (Hcol : forall i, l <= i -> i < hi -> sol c k (i, hi - 1) = false).
  { intros i H1 H2. unfold sol. cbn [fst snd]. apply Z.eqb_neq. pose proof (asc_le l i H1 ltac:(lia)). lia. }
  rewrite app_nil_r.
  assert (Elast : filter (sol c k) (row (hi - 1) hi) = []).
  { apply filter_nil. intros [i j] Hin. apply in_row in Hin as (-> & Hj).
    replace j with (hi - 1) by lia. apply Hcol; lia. }
  rewrite Elast, app_nil_r. apply flat_map_ext_in'. intros i Hi. apply in_seq in Hi.
  rewrite (row_last i hi) by lia. rewrite filter_app. cbn [filter]. rewrite Hcol by lia. now rewrite app_nil_r.
Qed.

Lemma loop_spec : forall fuel l hi, hi <= k -> hi - l < fuel -> ops_2p_loop fuel c k l hi = S_ c k l hi.
Proof using Hasc.
  induction fuel as [|fuel IH]; intros l hi Hh Hf; [lia|]. cbn [ops_2p_loop].
  destruct (l <? hi) eqn:E.
  - apply Nat.ltb_lt in E. cbv zeta.
    destruct (nz c l + nz c (hi - 1) =? nz c k)%Z eqn:Eeq.
    + apply Z.eqb_eq in Eeq. rewrite case_le by (try assumption; lia).
      unfold sol at 1. cbn [fst snd]. rewrite Eeq, Z.eqb_refl. cbn [app]. f_equal. apply IH; lia.
    + apply Z.eqb_neq in Eeq. destruct (nz c l + nz c (hi - 1) <? nz c k)%Z eqn:Elt.
      * apply Z.ltb_lt in Elt. rewrite case_le by (try assumption; lia).
        unfold sol at 1. cbn [fst snd].
        replace (nz c l + nz c (hi - 1) =? nz c k)%Z with false by (symmetry; apply Z.eqb_neq; lia).
        cbn [app]. apply IH; lia.
      * apply Z.ltb_ge in Elt. rewrite case_gt by (try assumption; lia). apply IH; lia.
  - apply Nat.ltb_ge in E. unfold S_. now rewrite pairs_empty.
Qed.

Lemma ops_2p_quad : ops_2p c k = ops_quad c k.
Proof using Hasc. unfold ops_2p, ops_quad. rewrite loop_spec by lia. reflexivity. Qed.
End Asc.

(* ---------- IsAscending of the prefix gives the hypothesis ---------- *)
Lemma strictly_inc_nth : forall l, strictly_inc l = true ->
  forall i j, i < j -> j < length l -> (nth i l 0 < nth j l 0)%Z.
Proof.
  induction l as [|x l IH]; intros H i j Hij Hj; [cbn [length] in Hj; lia|].
  destruct l as [|y l'].
  - cbn [length] in Hj. lia.
  - cbn [strictly_inc] in H. apply andb_true_iff in H as [Hxy Hrest]. apply Z.ltb_lt in Hxy.
    destruct j as [|j]; [lia|]. cbn [length] in Hj.
    destruct i as [|i].
    + change (nth 0 (x :: y :: l') 0%Z) with x. change (nth (S j) (x :: y :: l') 0%Z) with (nth j (y :: l') 0%Z).
      destruct j as [|j]; [exact Hxy|].
      assert (nth 0 (y :: l') 0 < nth (S j) (y :: l') 0)%Z by (apply IH; [assumption|lia|cbn [length]; lia]).
      change (nth 0 (y :: l') 0%Z) with y in H. lia.
    + change (nth (S i) (x :: y :: l') 0%Z) with (nth i (y :: l') 0%Z).
      change (nth (S j) (x :: y :: l') 0%Z) with (nth j (y :: l') 0%Z).
      apply IH; [assumption|lia|cbn [length]; lia].
Qed.

Lemma nth_firstn {A} (d : A) : forall k l i, i < k -> nth i (firstn k l) d = nth i l d.
Proof.
  induction k as [|k IH]; intros l i Hi; [lia|].
  destruct l as [|x l]; [reflexivity|]. cbn [firstn]. destruct i as [|i]; [reflexivity|].
  cbn [nth]. apply IH. lia.
Qed.

Lemma is_asc_prefix c k : k <= length c -> is_asc (firstn k c) = true ->
  forall i j, i < j -> j < k -> (nz c i < nz c j)%Z.
Proof.
  intros Hk H i j Hij Hj. unfold is_asc in H.
  destruct (firstn k c) as [|x r] eqn:E; [discriminate|].
  apply andb_true_iff in H as [_ H]. rewrite <- E in H.
  pose proof (strictly_inc_nth _ H i j Hij) as L.
  rewrite firstn_length, Nat.min_l in L by assumption. specialize (L Hj).
  rewrite !nth_firstn in L by lia. exact L.
Qed.

Theorem ops_eq_quad c k : k <= length c -> ops c k = ops_quad c k.
Proof.
  intros Hk. unfold ops. destruct (is_asc (firstn k c)) eqn:E; [|reflexivity].
  apply ops_2p_quad. now apply is_asc_prefix.
Qed.

Theorem in_ops c k i j : k <= length c ->
  In (i, j) (ops c k) <-> i <= j < k /\ (nz c i + nz c j = nz c k)%Z.
Proof.
  intros Hk. rewrite ops_eq_quad by assumption. unfold ops_quad.
  rewrite filter_In, in_pairs. unfold sol. cbn [fst snd]. rewrite Z.eqb_eq. tauto.
Qed.

Theorem NoDup_ops c k : k <= length c -> NoDup (ops c k).
Proof. intros Hk. rewrite ops_eq_quad by assumption. apply NoDup_filter, NoDup_pairs. Qed.

(* operands returned by Chain.Ops(k) are below k: for every input, valid chain or not *)
Theorem ops_bounds c k o : k <= length c -> In o (ops c k) -> fst o <= snd o < k.
Proof. intros Hk H. destruct o as [i j]. apply in_ops in H; [cbn [fst snd]; lia|assumption]. Qed.

(* ---------- Program on a valid chain ---------- *)
Lemma existsb_eqb_false x l : ~ In x l -> existsb (Z.eqb x) l = false.
Proof.
  intros H. destruct (existsb (Z.eqb x) l) eqn:E; [|reflexivity].
  apply existsb_exists in E as (y & Hy & Ey). apply Z.eqb_eq in Ey. subst. contradiction.
Qed.

Lemma has_dup_false l : NoDup l -> has_dup l = false.
Proof.
  induction 1 as [|x l Hx Hnd IH]; [reflexivity|].
  cbn [has_dup]. rewrite existsb_eqb_false by assumption. exact IH.
Qed.

Definition op_ok (c : list Z) (k : nat) (o : op) : Prop :=
  fst o <= snd o < k /\ (nz c (fst o) + nz c (snd o) = nz c k)%Z.

Lemma op_at_ok c k : 1 <= k < length c -> is_chain c -> exists o, op_at c k = Ok o /\ op_ok c k o.
Proof.
  intros Hk (_ & _ & _ & Hsum). destruct (Hsum k Hk) as (i & j & B & E).
  assert (Hin : In (i, j) (ops c k)) by (apply in_ops; [lia|auto]).
  unfold op_at. destruct (ops c k) as [|o t] eqn:Eo; [destruct Hin|].
  exists o. split; [reflexivity|].
  assert (Ho : In o (ops c k)) by (rewrite Eo; left; reflexivity).
  destruct o as [a b]. apply in_ops in Ho; [|lia]. exact Ho.
Qed.

Lemma program_loop_ok c : is_chain c -> forall ks, (forall k, In k ks -> 1 <= k < length c) ->
  exists p, program_loop c ks = Ok p /\ Forall2 (op_ok c) ks p.
Proof.
  intros Hc. induction ks as [|k ks IH]; intros Hks.
  - exists []. split; [reflexivity|constructor].
  - destruct (op_at_ok c k (Hks k (or_introl eq_refl)) Hc) as (o & Eo & Ho).
    destruct IH as (p & Ep & Hp); [intros k' Hk'; apply Hks; right; exact Hk'|].
    exists (o :: p). split; [|constructor; assumption].
    cbn [program_loop]. rewrite Eo. cbn [obind]. rewrite Ep. reflexivity.
Qed.

Theorem program_ok c : is_chain c ->
  exists p, program c = Ok p /\ Forall2 (op_ok c) (seq 1 (length c - 1)) p.
Proof.
  intros Hc. pose proof Hc as ((r & Er) & Hnd & Hz & _).
  destruct (program_loop_ok c Hc (seq 1 (length c - 1))) as (p & Ep & Hp).
  { intros k Hk. apply in_seq in Hk. lia. }
  exists p. split; [|exact Hp].
  unfold program. destruct c as [|x r']; [discriminate Er|].
  injection Er as -> ->.
  rewrite Z.eqb_refl. cbn [negb]. rewrite existsb_eqb_false by assumption.
  rewrite has_dup_false by assumption. exact Ep.
Qed.

(* every element of a valid chain is positive *)
Theorem chain_pos c : is_chain c -> forall k, k < length c -> (1 <= nz c k)%Z.
Proof.
  intros ((r & Er) & _ & _ & Hsum) k. induction k as [k IH] using lt_wf_ind. intros Hk.
  destruct k as [|k]; [rewrite Er; unfold nz; cbn [nth]; lia|].
  destruct (Hsum (S k) ltac:(lia)) as (i & j & B & E).
  pose proof (IH i ltac:(lia) ltac:(lia)). pose proof (IH j ltac:(lia) ltac:(lia)). lia.
Qed.

(* ---------- converse: what Program accepts is a chain (used for the concrete examples) ---------- *)
Lemma has_dup_NoDup l : has_dup l = false -> NoDup l.
Proof.
  induction l as [|x l IH]; intros H; [constructor|].
  cbn [has_dup] in H. apply orb_false_iff in H as [H1 H2]. constructor; [|apply IH; exact H2].
  intros Hin. assert (existsb (Z.eqb x) l = true); [|congruence].
  apply existsb_exists. exists x. split; [assumption|apply Z.eqb_refl].
Qed.

Lemma program_loop_sound c : forall ks p, program_loop c ks = Ok p ->
  forall k, In k ks -> ops c k <> [].
Proof.
  induction ks as [|k ks IH]; intros p H k' Hk'; [destruct Hk'|].
  cbn [program_loop] in H. unfold op_at in H at 1.
  destruct (ops c k) as [|o t] eqn:Eo; [discriminate H|]. cbn [obind] in H.
  destruct (program_loop c ks) as [p'| | |] eqn:Ep; try discriminate H.
  destruct Hk' as [<-|Hk']; [rewrite Eo; discriminate|]. eapply IH; [reflexivity|exact Hk'].
Qed.

Theorem program_sound c p : program c = Ok p -> is_chain c.
Proof.
  unfold program. destruct c as [|x r] eqn:Ec; [discriminate|]. rewrite <- Ec.
  destruct (x =? 1)%Z eqn:E1; [|discriminate]. cbn [negb].
  destruct (existsb (Z.eqb 0) c) eqn:E0; [discriminate|].
  destruct (has_dup c) eqn:Ed; [discriminate|]. intros Hp.
  apply Z.eqb_eq in E1. subst x. split; [exists r; exact Ec|].
  split; [apply has_dup_NoDup; exact Ed|]. split.
  - intros Hin. assert (existsb (Z.eqb 0) c = true); [|congruence].
    apply existsb_exists. exists 0%Z. split; [assumption|reflexivity].
  - intros k Hk. pose proof (program_loop_sound c _ p Hp k ltac:(apply in_seq; lia)) as Hne.
    destruct (ops c k) as [|[i j] t] eqn:Eo; [congruence|].
    assert (Hin : In (i, j) (ops c k)) by (rewrite Eo; left; reflexivity).
    apply in_ops in Hin; [|lia]. exists i, j. exact Hin.
Qed.
