(* Consequence of C01 soundness and the growth bound of proofs/ChainBounds.v: whatever a search
   algorithm returns as a successful result for n, its program has at least log2_up n operations
   (no algorithm configuration can "beat" the doubling bound without breaking validity). *)
From Coq Require Import String.
From Coq Require Import List NArith ZArith Bool Lia.
From AV Require Import model.Proto model.Chain model.Program model.Ensemble
  proofs.ChainProofs proofs.ChainBounds proofs.EnsembleProofs.
Import ListNotations.
Open Scope Z_scope.

Theorem execute_ops_lower_bound a n orc r :
  execute a n orc = Ok r -> res_err r = None ->
  Z.log2_up n <= Z.of_nat (length (res_program r)).
Proof.
  intros He Hn. destruct (execute_sound a n orc r He Hn) as (Hc & Hl & Hp & _).
  rewrite Hp. now apply chain_length_lower_bound.
Qed.
