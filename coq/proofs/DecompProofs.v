(* Proofs for C09 over model/Decomp.v. *)
From Coq Require Import List NArith ZArith Bool Lia ZifyBool ZifyNat ZifyN Permutation Sorted.
From AV Require Import model.Proto model.Bits model.Lists model.Decomp proofs.BitsProofs.
Import ListNotations.
Open Scope N_scope.

(* lia is very slow when hypotheses with mod / pow of variable exponents are around:
   drop them first (position bookkeeping never needs them) *)
Ltac zlia :=
  repeat match goal with
         | H : context [N.modulo] |- _ => clear H
         | H : context [N.pow] |- _ => clear H
         end; lia.

(* ------------------------------------------------------------------ *)
(* Arithmetic of bit fields over N                                     *)
(* ------------------------------------------------------------------ *)

(* bits [l,h) of x *)
Definition ext (x l h : N) : N := (x / 2 ^ l) mod 2 ^ (h - l).

Lemma p2_pos n : 2 ^ n <> 0.
Proof. apply N.pow_nonzero. lia. Qed.

Lemma p2_gt0 n : 0 < 2 ^ n.
Proof. pose proof (p2_pos n). lia. Qed.

Lemma split_mod x l top : l <= top -> x mod 2 ^ top = ext x l top * 2 ^ l + x mod 2 ^ l.
Proof.
  intros H. unfold ext. replace top with (l + (top - l)) at 1 by lia.
  rewrite N.pow_add_r. rewrite N.mod_mul_r by apply p2_pos. lia.
Qed.

Lemma ext_lt x l h : ext x l h < 2 ^ (h - l).
Proof. unfold ext. apply N.mod_lt, p2_pos. Qed.

Lemma ext_bits x l h j : N.testbit (ext x l h) j = N.testbit x (j + l) && (j <? h - l).
Proof.
  unfold ext. destruct (j <? h - l) eqn:Hj.
  - rewrite N.mod_pow2_bits_low by lia. rewrite N.div_pow2_bits. now rewrite andb_true_r.
  - rewrite N.mod_pow2_bits_high by lia. now rewrite andb_false_r.
Qed.

Lemma mod_drop_zero_bit x h : N.testbit x h = false -> x mod 2 ^ (h + 1) = x mod 2 ^ h.
Proof.
  intros Hb. rewrite (split_mod x h (h + 1)) by lia.
  assert (E0 : ext x h (h + 1) = 0).
  { apply N.bits_inj. intros j. rewrite ext_bits, N.bits_0.
    destruct (j <? h + 1 - h) eqn:Hj; [|now rewrite andb_false_r].
    replace (j + h) with h by lia. now rewrite Hb. }
  rewrite E0. lia.
Qed.

Lemma pow2_le_mono a b : a <= b -> 2 ^ a <= 2 ^ b.
Proof. intros. apply N.pow_le_mono_r; lia. Qed.

(* width: d < 2^w  ->  size d <= w *)
Lemma size_le_of_lt d w : d < 2 ^ w -> N.size d <= w.
Proof.
  intros H. destruct (N.eq_dec d 0) as [->|Hd]; [cbn; lia|].
  rewrite N.size_log2 by exact Hd.
  assert (N.log2 d < w) by (apply N.log2_lt_pow2; lia). lia.
Qed.

Lemma lt_of_size_le d w : N.size d <= w -> d < 2 ^ w.
Proof.
  intros H. eapply N.lt_le_trans; [apply N.size_gt|]. now apply pow2_le_mono.
Qed.

Lemma size_pos d : 0 < d -> 1 <= N.size d.
Proof. intros H. rewrite N.size_log2 by lia. lia. Qed.

Lemma odd_of_bit0 d : N.testbit d 0 = true -> N.odd d = true.
Proof. now rewrite N.bit0_odd. Qed.

Lemma odd_pos d : N.odd d = true -> 0 < d.
Proof. destruct d; [discriminate|lia]. Qed.

(* all bits of [l,h) set: the field is 2^(h-l) - 1 *)
Lemma ext_all_ones x l h :
  (forall j, l <= j < h -> N.testbit x j = true) -> ext x l h = 2 ^ (h - l) - 1.
Proof.
  intros Hb. rewrite <- N.pred_sub, <- N.ones_equiv. apply N.bits_inj. intros j.
  rewrite ext_bits. destruct (j <? h - l) eqn:Hj.
  - rewrite N.ones_spec_low by lia. rewrite Hb by lia. reflexivity.
  - rewrite N.ones_spec_high by lia. now rewrite andb_false_r.
Qed.

Lemma ones_bits w j : N.testbit (2 ^ w - 1) j = (j <? w).
Proof.
  rewrite <- N.pred_sub, <- N.ones_equiv. destruct (j <? w) eqn:Hj.
  - apply N.ones_spec_low. lia.
  - apply N.ones_spec_high. lia.
Qed.

(* ------------------------------------------------------------------ *)
(* The model's primitives in terms of N arithmetic                     *)
(* ------------------------------------------------------------------ *)

Lemma bitlen_int_eq x : bitlen_int x = Z.of_N (N.size x).
Proof. unfold bitlen_int, bitlen. now rewrite Zabs2N.id. Qed.

Lemma fuel_of_eq x : fuel_of x = S (N.to_nat (N.size x)).
Proof. unfold fuel_of, bitlen. now rewrite Zabs2N.id. Qed.

Lemma bit_eq x i : (0 <= i)%Z -> bit x i = N.testbit x (Z.to_N i).
Proof. intros. unfold bit. now apply Z.testbit_of_N'. Qed.

Lemma extract_n_eq x l h : (0 <= l <= h)%Z -> extract_n x l h = ext x (Z.to_N l) (Z.to_N h).
Proof.
  intros H. unfold extract_n, ext. rewrite extract_eq by lia.
  rewrite <- N2Z.inj_sub by lia.
  change 2%Z with (Z.of_N 2). rewrite <- !N2Z.inj_pow, <- N2Z.inj_div, <- N2Z.inj_mod.
  apply N2Z.id.
Qed.

Lemma ones_n_eq n : ones_n n = 2 ^ Z.to_N n - 1.
Proof.
  unfold ones_n. rewrite ones_eq. change 2%Z with (Z.of_N 2). rewrite <- N2Z.inj_pow.
  pose proof (p2_gt0 (Z.to_N n)). lia.
Qed.

Definition mask_n (l h : N) : N := Z.to_N (mask l h).

Lemma mask_n_eq l h : l <= h -> mask_n l h = 2 ^ h - 2 ^ l.
Proof.
  intros H. unfold mask_n, mask. rewrite !pow2_eq. change 2%Z with (Z.of_N 2).
  rewrite <- !N2Z.inj_pow. pose proof (pow2_le_mono l h H). lia.
Qed.

Lemma mask_n_bits l h j : l <= h -> N.testbit (mask_n l h) j = (l <=? j) && (j <? h).
Proof.
  intros H. unfold mask_n. rewrite <- N2Z.inj_testbit. rewrite Z2N.id by (apply mask_nonneg; lia).
  rewrite mask_bits by lia.
  destruct (l <=? j) eqn:A, (j <? h) eqn:B; lia.
Qed.

Lemma xor_mask_eq y l h : (0 <= l <= h)%Z ->
  xor_mask y l h = N.lxor y (mask_n (Z.to_N l) (Z.to_N h)).
Proof.
  intros H. unfold xor_mask, mask_n.
  assert (Hm : (0 <= mask (Z.to_N l) (Z.to_N h))%Z) by (apply mask_nonneg; lia).
  apply N.bits_inj. intros j. rewrite N.lxor_spec.
  rewrite <- !N2Z.inj_testbit.
  rewrite !Z2N.id; try assumption.
  - apply Z.lxor_spec.
  - apply Z.lxor_nonneg. split; intros; [assumption|lia].
Qed.

(* clearing a field whose bits are all set subtracts it *)
Lemma xor_mask_sub y l h :
  l <= h -> (forall j, l <= j < h -> N.testbit y j = true) ->
  N.lxor y (mask_n l h) + (2 ^ h - 2 ^ l) = y.
Proof.
  intros H Hb. rewrite <- (mask_n_eq l h H). rewrite N.add_nocarry_lxor.
  - rewrite N.lxor_assoc, N.lxor_nilpotent. apply N.lxor_0_r.
  - apply N.bits_inj. intros j. rewrite N.land_spec, N.lxor_spec, N.bits_0, mask_n_bits by exact H.
    destruct (l <=? j) eqn:A, (j <? h) eqn:B; cbn [andb]; try now rewrite andb_false_r.
    rewrite Hb by lia. reflexivity.
Qed.

(* ------------------------------------------------------------------ *)
(* The inner scans                                                     *)
(* ------------------------------------------------------------------ *)

(* 2^(top) with top = position + 1 as Z >= 0 *)
Definition topn (h : Z) : N := Z.to_N (h + 1).

Lemma find_one_steps_spec x : forall n h, (-1 <= h)%Z -> (Z.to_nat (h + 1) <= n)%nat ->
  let h' := find_one_steps n x h in
  (-1 <= h' <= h)%Z /\
  (0 <= h' -> bit x h' = true)%Z /\
  x mod 2 ^ topn h = x mod 2 ^ topn h'.
Proof.
  induction n as [|n IH]; intros h Hh Hn; cbn [find_one_steps].
  - assert (h = -1)%Z by zlia. subst h. cbv zeta. repeat split; zlia.
  - destruct ((0 <=? h)%Z && negb (bit x h)) eqn:C.
    + apply andb_prop in C. destruct C as [C1 C2]. apply negb_true_iff in C2.
      destruct (IH (h - 1)%Z ltac:(zlia) ltac:(zlia)) as (A1 & A2 & A3). cbv zeta.
      repeat split; try zlia; try assumption.
      rewrite <- A3. unfold topn. rewrite bit_eq in C2 by zlia.
      replace (Z.to_N (h + 1)) with (Z.to_N h + 1) by zlia.
      replace (Z.to_N (h - 1 + 1)) with (Z.to_N h) by zlia.
      now apply mod_drop_zero_bit.
    + cbv zeta. repeat split; zlia.
Qed.

Lemma find_one_spec x h : (-1 <= h)%Z ->
  let h' := find_one x h in
  (-1 <= h' <= h)%Z /\ (0 <= h' -> bit x h' = true)%Z /\ x mod 2 ^ topn h = x mod 2 ^ topn h'.
Proof. intros H. unfold find_one. apply find_one_steps_spec; lia. Qed.

(* bits above the top of x are zero *)
Lemma bit_above_size x j : N.size x <= j -> N.testbit x j = false.
Proof.
  intros H. destruct (N.testbit x j) eqn:B; [|reflexivity]. exfalso.
  assert (2 ^ j <= x).
  { rewrite (N.div_mod x (2 ^ j)) by apply p2_pos.
    assert (x / 2 ^ j <> 0).
    { intros Z0. pose proof (N.testbit_spec' x j) as S. rewrite B, Z0 in S. cbn in S. discriminate. }
    nia. }
  pose proof (N.size_gt x). pose proof (pow2_le_mono _ _ H). lia.
Qed.

Lemma scan_up_spec x : forall fuel l h, (0 <= l <= h)%Z -> bit x h = true ->
  (Z.to_nat (h - l) < fuel)%nat ->
  exists l', scan_up fuel x l = Ok l' /\ (l <= l' <= h)%Z /\ bit x l' = true.
Proof.
  induction fuel as [|f IH]; intros l h Hl Hb Hf; [lia|]. cbn [scan_up].
  destruct (bit x l) eqn:B.
  - exists l. repeat split; try lia; try exact B.
  - assert (l <> h) by (intros ->; congruence).
    destruct (IH (l + 1)%Z h ltac:(lia) Hb ltac:(lia)) as (l' & E1 & E2 & E3).
    exists l'. repeat split; try lia; assumption.
Qed.

Lemma run_end_steps_spec x T : forall n s i, (-1 <= i <= s)%Z -> (Z.to_nat (i + 1) <= n)%nat ->
  (T = 0 \/ (s - i <= Z.of_N T)%Z) ->
  let i' := run_end_steps n x T s i in
  (-1 <= i' <= i)%Z /\
  (forall j, i' < j <= i -> bit x j = true)%Z /\
  (T = 0 \/ (s - i' <= Z.of_N T)%Z).
Proof.
  induction n as [|n IH]; intros s i Hi Hn HT; cbn [run_end_steps].
  - cbv zeta. repeat split; try lia; try assumption.
  - destruct ((0 <=? i)%Z && bit x i && ((T =? 0) || (s - i <? Z.of_N T)%Z)) eqn:C.
    + apply andb_prop in C. destruct C as [C C3]. apply andb_prop in C. destruct C as [C1 C2].
      destruct (IH s (i - 1)%Z ltac:(lia) ltac:(lia) ltac:(lia)) as (A1 & A2 & A3). cbv zeta.
      repeat split; try lia; try assumption.
      intros j Hj. destruct (Z.eq_dec j i) as [->|Hne]; [exact C2|]. apply A2. lia.
    + cbv zeta. repeat split; try lia; try assumption.
Qed.

Lemma run_end_spec x T s : (0 <= s)%Z -> bit x s = true ->
  let i' := run_end x T s in
  (-1 <= i' < s)%Z /\
  (forall j, i' < j <= s -> bit x j = true)%Z /\
  (T = 0 \/ (s - i' <= Z.of_N T)%Z).
Proof.
  intros Hs Hb. unfold run_end.
  (* the first iteration always runs: s >= 0, bit s set, s - s = 0 < T or T = 0 *)
  replace (Z.to_nat (s + 1)) with (S (Z.to_nat s)) by lia. cbn [run_end_steps].
  assert (C : (0 <=? s)%Z && bit x s && ((T =? 0) || (s - s <? Z.of_N T)%Z) = true).
  { rewrite Hb. replace (0 <=? s)%Z with true by lia. cbn [andb].
    destruct (T =? 0) eqn:ET; [reflexivity|]. cbn [orb]. lia. }
  rewrite C.
  destruct (run_end_steps_spec x T (Z.to_nat s) s (s - 1)%Z ltac:(lia) ltac:(lia) ltac:(lia))
    as (A1 & A2 & A3).
  cbv zeta. repeat split; try lia; try assumption.
  intros j Hj. destruct (Z.eq_dec j s) as [->|Hne]; [exact Hb|]. apply A2. lia.
Qed.

(* ------------------------------------------------------------------ *)
(* Values of terms and sums                                            *)
(* ------------------------------------------------------------------ *)

Definition tval (t : term) : N := D t * 2 ^ E t.
Fixpoint tsum (ts : list term) : N :=
  match ts with [] => 0 | t :: r => tval t + tsum r end.

Lemma term_int_eq t : term_int t = tval t.
Proof. unfold term_int, tval. apply N.shiftl_mul_pow2. Qed.

Lemma sum_int_acc s : forall a, fold_left (fun acc t => acc + term_int t) s a = a + tsum s.
Proof.
  induction s as [|t r IH]; intros a; cbn [fold_left tsum]; [lia|].
  rewrite IH, term_int_eq. lia.
Qed.

Lemma sum_int_eq s : sum_int s = tsum s.
Proof. unfold sum_int. rewrite sum_int_acc. lia. Qed.

Lemma tsum_app a b : tsum (a ++ b) = tsum a + tsum b.
Proof. induction a as [|t r IH]; cbn [app tsum]; [lia|]. rewrite IH. lia. Qed.

Lemma tsum_perm a b : Permutation a b -> tsum a = tsum b.
Proof. induction 1; cbn [tsum]; lia. Qed.

(* ------------------------------------------------------------------ *)
(* Descending chains of terms, as produced by the scanning loops       *)
(* ------------------------------------------------------------------ *)

(* bit range of a term: [E, E + size D) *)
Definition hi (t : term) : N := E t + N.size (D t).
Definition before (a b : term) : Prop := hi a <= E b.
Definition disj (a b : term) : Prop := before a b \/ before b a.
Definition posD (t : term) : Prop := 0 < D t.

(* every term has shape P, is positive, lies below top; the rest lies below its exponent *)
Fixpoint chained (P : term -> Prop) (top : N) (ts : list term) : Prop :=
  match ts with
  | [] => True
  | t :: r => P t /\ posD t /\ hi t <= top /\ chained P (E t) r
  end.

Lemma chained_weaken P top top' ts : top <= top' -> chained P top ts -> chained P top' ts.
Proof.
  destruct ts as [|t r]; cbn [chained]; [auto|]. intros H (A & B & C & Dd). repeat split; try assumption. lia.
Qed.

Lemma chained_below P : forall ts top, chained P top ts -> Forall (fun t => hi t <= top) ts.
Proof.
  induction ts as [|t r IH]; intros top H; [constructor|]. cbn [chained] in H.
  destruct H as (A & B & C & Dd). constructor; [exact C|].
  apply IH in Dd. eapply Forall_impl; [|exact Dd]. cbv beta. intros u Hu. unfold hi in *. lia.
Qed.

Lemma chained_facts P : forall ts top, chained P top ts ->
  Forall P ts /\ Forall posD ts /\ StronglySorted (fun a b => before b a) ts.
Proof.
  induction ts as [|t r IH]; intros top H; [repeat split; constructor|]. cbn [chained] in H.
  destruct H as (A & B & C & Dd). destruct (IH _ Dd) as (I1 & I2 & I3).
  repeat split; constructor; try assumption.
  apply chained_below in Dd. eapply Forall_impl; [|exact Dd]. cbv beta. intros u Hu. exact Hu.
Qed.

(* ------------------------------------------------------------------ *)
(* FixedWindow                                                         *)
(* ------------------------------------------------------------------ *)

Definition fixedP (K : N) (t : term) : Prop := N.size (D t) <= K.

Lemma mod_p2_0 x : x mod 2 ^ 0 = 0.
Proof. change (2 ^ 0) with 1. apply N.mod_1_r. Qed.

Lemma fixed_loop_spec x K : 1 <= K -> forall fuel h, (0 <= h)%Z -> (Z.to_nat h < fuel)%nat ->
  exists ts, fixed_loop fuel x K h = Ok ts /\ tsum ts = x mod 2 ^ Z.to_N h /\
             chained (fixedP K) (Z.to_N h) ts.
Proof.
  intros HK. induction fuel as [|f IH]; intros h Hh Hf; [lia|]. cbn [fixed_loop].
  destruct (0 <? h)%Z eqn:C.
  - set (l := Z.max (h - Z.of_N K) 0).
    assert (Hl : (0 <= l < h)%Z) by lia.
    assert (Hlh : Z.to_N l <= Z.to_N h) by lia.
    assert (HlK : Z.to_N h - Z.to_N l <= K) by lia.
    destruct (IH l ltac:(lia) ltac:(lia)) as (ts & E1 & E2 & E3).
    rewrite E1. cbn [obind]. rewrite extract_n_eq by (clear - Hl; lia).
    clearbody l. clear IH Hf C Hl Hh E1.
    set (d := ext x (Z.to_N l) (Z.to_N h)).
    assert (Hd : d < 2 ^ (Z.to_N h - Z.to_N l)) by apply ext_lt.
    assert (Hsz : N.size d <= Z.to_N h - Z.to_N l) by (apply size_le_of_lt; exact Hd).
    destruct (d =? 0) eqn:D0.
    + exists ts. split; [reflexivity|]. split.
      * rewrite (split_mod x _ _ Hlh), E2. fold d. apply N.eqb_eq in D0. rewrite D0.
        apply N.add_0_l.
      * eapply chained_weaken; [exact Hlh|exact E3].
    + eexists. split; [reflexivity|]. split.
      * cbn [tsum]. unfold tval. cbn [D E]. rewrite (split_mod x _ _ Hlh), E2. reflexivity.
      * cbn [chained]. unfold fixedP, posD, hi. cbn [D E].
        apply N.eqb_neq in D0. clearbody d. clear Hd E2.
        repeat split; try lia. exact E3.
  - exists []. split; [reflexivity|]. assert (h = 0)%Z by lia. subst h.
    split; [|exact I]. cbn [tsum]. change (Z.to_N 0) with 0. now rewrite mod_p2_0.
Qed.

(* ------------------------------------------------------------------ *)
(* SlidingWindow                                                       *)
(* ------------------------------------------------------------------ *)

(* a window [E t, h] of x with both end bits set and at most K wide *)
Definition slidingP (x K : N) (t : term) : Prop :=
  exists h, E t <= h /\ h + 1 - E t <= K /\
            N.testbit x (E t) = true /\ N.testbit x h = true /\ D t = ext x (E t) (h + 1).

Lemma slidingP_odd x K t : slidingP x K t -> N.odd (D t) = true.
Proof.
  intros (h & A & B & C & Dd & F). apply odd_of_bit0. rewrite F, ext_bits.
  replace (0 + E t) with (E t) by lia. rewrite C. cbn [andb]. lia.
Qed.

Lemma slidingP_size x K t : slidingP x K t -> N.size (D t) <= K.
Proof.
  intros (h & A & B & C & Dd & F). apply size_le_of_lt. rewrite F.
  eapply N.lt_le_trans; [apply ext_lt|]. apply pow2_le_mono. lia.
Qed.

Lemma bit_lt_size x j : N.testbit x j = true -> j < N.size x.
Proof.
  intros B. destruct (N.lt_ge_cases j (N.size x)) as [L|G]; [exact L|].
  rewrite bit_above_size in B by exact G. discriminate.
Qed.

Lemma sliding_loop_spec x K : 1 <= K -> forall fuel h, (-1 <= h)%Z -> (Z.to_nat (h + 1) < fuel)%nat ->
  exists ts, sliding_loop fuel x K h = Ok ts /\ tsum ts = x mod 2 ^ topn h /\
             chained (slidingP x K) (topn h) ts.
Proof.
  intros HK. induction fuel as [|f IH]; intros h Hh Hf; [zlia|]. cbn [sliding_loop].
  destruct (0 <=? h)%Z eqn:C.
  - destruct (find_one_spec x h Hh) as (F1 & F2 & F3). set (h1 := find_one x h) in *.
    destruct (h1 <? 0)%Z eqn:C1.
    + exists []. split; [reflexivity|]. split; [|exact I]. cbn [tsum]. rewrite F3.
      assert (h1 = -1)%Z by zlia. replace (topn h1) with 0 by (unfold topn; zlia). now rewrite mod_p2_0.
    + assert (Hb1 : bit x h1 = true) by (apply F2; zlia).
      set (l0 := Z.max (h1 - Z.of_N K + 1) 0).
      assert (Hsz : Z.to_N h1 < N.size x) by (apply bit_lt_size; rewrite <- bit_eq by zlia; exact Hb1).
      destruct (scan_up_spec x (fuel_of x) l0 h1 ltac:(zlia) Hb1) as (l & S1 & S2 & S3).
      { rewrite fuel_of_eq. zlia. }
      rewrite S1. cbn [obind].
      destruct (IH (l - 1)%Z ltac:(zlia) ltac:(zlia)) as (ts & E1 & E2 & E3).
      rewrite E1. cbn [obind]. rewrite extract_n_eq by zlia.
      replace (topn (l - 1)) with (Z.to_N l) in * by (unfold topn; zlia).
      eexists. split; [reflexivity|]. split.
      * cbn [tsum]. unfold tval. cbn [D E]. rewrite F3, E2. unfold topn. symmetry. apply split_mod. zlia.
      * cbn [chained].
        assert (P : slidingP x K {| D := ext x (Z.to_N l) (Z.to_N (h1 + 1)); E := Z.to_N l |}).
        { exists (Z.to_N h1). cbn [D E]. rewrite <- !bit_eq by zlia.
          replace (Z.to_N h1 + 1) with (Z.to_N (h1 + 1)) by zlia.
          repeat split; try zlia; assumption. }
        split; [exact P|]. split; [apply odd_pos; eapply slidingP_odd; exact P|].
        split; [|exact E3]. unfold hi. cbn [D E].
        assert (N.size (ext x (Z.to_N l) (Z.to_N (h1 + 1))) <= Z.to_N (h1 + 1) - Z.to_N l)
          by (apply size_le_of_lt, ext_lt).
        unfold topn. zlia.
  - exists []. split; [reflexivity|]. split; [|exact I]. cbn [tsum].
    replace (topn h) with 0 by (unfold topn; zlia). now rewrite mod_p2_0.
Qed.

(* ------------------------------------------------------------------ *)
(* RunLength                                                           *)
(* ------------------------------------------------------------------ *)

(* an all-ones term of width w > K, at most T wide when T > 0 *)
Definition runP (K T : N) (t : term) : Prop :=
  exists w, K < w /\ D t = 2 ^ w - 1 /\ (0 < T -> w <= T).

Lemma ones_size w : N.size (2 ^ w - 1) <= w.
Proof. apply size_le_of_lt. pose proof (p2_gt0 w). lia. Qed.

Lemma ones_pos w : 1 <= w -> 0 < 2 ^ w - 1.
Proof. intros H. pose proof (pow2_le_mono 1 w H). change (2 ^ 1) with 2 in *. lia. Qed.

Lemma ones_odd w : 1 <= w -> N.odd (2 ^ w - 1) = true.
Proof. intros H. apply odd_of_bit0. rewrite ones_bits. lia. Qed.

(* the run found by find_one / run_end, as a term *)
Lemma run_term_facts K T (s i' : Z) top :
  (-1 <= i' < s)%Z -> Z.to_N (s + 1) <= top -> (T = 0 \/ (s - i' <= Z.of_N T)%Z) ->
  K < Z.to_N (s - i') ->
  let t := mkTerm (ones_n (s - i')) (Z.to_N (i' + 1)) in
  runP K T t /\ posD t /\ hi t <= top /\
  tval t = 2 ^ Z.to_N (s + 1) - 2 ^ Z.to_N (i' + 1).
Proof.
  intros Hi Htop HT HK t. subst t. unfold runP, posD, hi, tval. cbn [D E]. rewrite ones_n_eq.
  set (w := Z.to_N (s - i')). assert (Hw : 1 <= w) by (unfold w; lia).
  split; [exists w; repeat split; try lia|].
  split; [now apply ones_pos|].
  split; [pose proof (ones_size w); unfold w in *; lia|].
  replace (Z.to_N (s + 1)) with (w + Z.to_N (i' + 1)) by (unfold w; lia).
  rewrite N.pow_add_r. pose proof (p2_gt0 w). nia.
Qed.

Lemma run_sum x L S : L <= S -> (forall j, L <= j < S -> N.testbit x j = true) ->
  2 ^ S - 2 ^ L + x mod 2 ^ L = x mod 2 ^ S.
Proof.
  intros H Hb. rewrite (split_mod x L S H), (ext_all_ones x L S Hb).
  replace S with ((S - L) + L) at 1 by lia. rewrite N.pow_add_r.
  pose proof (p2_gt0 (S - L)). pose proof (p2_gt0 L).
  generalize dependent (2 ^ (S - L)). generalize dependent (2 ^ L). clear. intros a Ha b Hb. nia.
Qed.

Lemma runlength_loop_spec x T : forall fuel i, (-1 <= i)%Z -> (Z.to_nat (i + 1) < fuel)%nat ->
  exists ts, runlength_loop fuel x T i = Ok ts /\ tsum ts = x mod 2 ^ topn i /\
             chained (runP 0 T) (topn i) ts.
Proof.
  induction fuel as [|f IH]; intros i Hi Hf; [zlia|]. cbn [runlength_loop].
  destruct (0 <=? i)%Z eqn:C.
  - destruct (find_one_spec x i Hi) as (F1 & F2 & F3). set (s := find_one x i) in *.
    destruct (s <? 0)%Z eqn:C1.
    + exists []. split; [reflexivity|]. split; [|exact I]. cbn [tsum]. rewrite F3.
      replace (topn s) with 0 by (unfold topn; zlia). now rewrite mod_p2_0.
    + assert (Hb : bit x s = true) by (apply F2; zlia).
      destruct (run_end_spec x T s ltac:(zlia) Hb) as (R1 & R2 & R3). set (i' := run_end x T s) in *.
      destruct (IH i' ltac:(zlia) ltac:(zlia)) as (ts & E1 & E2 & E3).
      rewrite E1. cbn [obind].
      destruct (run_term_facts 0 T s i' (topn i) ltac:(zlia) ltac:(unfold topn; zlia) R3 ltac:(zlia))
        as (G1 & G2 & G3 & G4).
      eexists. split; [reflexivity|]. split.
      * cbn [tsum]. rewrite G4, E2, F3. unfold topn. apply run_sum; [clear - R1; zlia|].
        intros j Hj. replace j with (Z.to_N (Z.of_N j)) by zlia. rewrite <- bit_eq by zlia.
        apply R2. clear - Hj R1. zlia.
      * cbn [chained]. repeat split; assumption.
  - exists []. split; [reflexivity|]. split; [|exact I]. cbn [tsum].
    replace (topn i) with 0 by (unfold topn; zlia). now rewrite mod_p2_0.
Qed.

(* ------------------------------------------------------------------ *)
(* Hybrid, first pass                                                  *)
(* ------------------------------------------------------------------ *)

(* the range of a recorded run is cleared in y *)
Definition cleared (y K : N) (t : term) : Prop :=
  exists w, K < w /\ N.size (D t) <= w /\ forall j, E t <= j < E t + w -> N.testbit y j = false.

Lemma hybrid_loop_spec K T : forall fuel y i, (-1 <= i)%Z -> (Z.to_nat (i + 1) < fuel)%nat ->
  exists runs yf, hybrid_loop fuel y K T i = Ok (runs, yf) /\
    tsum runs + yf = y /\
    chained (runP K T) (topn i) runs /\
    (forall j, N.testbit yf j = true -> N.testbit y j = true) /\
    Forall (cleared yf K) runs.
Proof.
  induction fuel as [|f IH]; intros y i Hi Hf; [lia|]. cbn [hybrid_loop].
  destruct (0 <=? i)%Z eqn:C.
  - destruct (find_one_spec y i Hi) as (F1 & F2 & _). set (s := find_one y i) in *.
    destruct (s <? 0)%Z eqn:C1.
    + exists [], y. repeat split; try exact I; try constructor. auto.
    + assert (Hb : bit y s = true) by (apply F2; lia).
      destruct (run_end_spec y T s ltac:(lia) Hb) as (R1 & R2 & R3). set (i' := run_end y T s) in *.
      destruct (Z.to_N (s - i') <=? K) eqn:CK.
      * destruct (IH y i' ltac:(lia) ltac:(lia)) as (runs & yf & E1 & E2 & E3 & E4 & E5).
        exists runs, yf. repeat split; try assumption.
        eapply chained_weaken; [|exact E3]. unfold topn. lia.
      * set (y' := xor_mask y (i' + 1) (s + 1)).
        destruct (IH y' i' ltac:(lia) ltac:(lia)) as (runs & yf & E1 & E2 & E3 & E4 & E5).
        rewrite E1. cbn [obind fst snd].
        destruct (run_term_facts K T s i' (topn i) ltac:(lia) ltac:(unfold topn; lia) R3 ltac:(lia))
          as (G1 & G2 & G3 & G4).
        set (L := Z.to_N (i' + 1)) in *. set (S := Z.to_N (s + 1)) in *.
        assert (HLS : L <= S) by (unfold L, S; lia).
        assert (Hones : forall j, L <= j < S -> N.testbit y j = true).
        { intros j Hj. replace j with (Z.to_N (Z.of_N j)) by lia. rewrite <- bit_eq by lia.
          apply R2. unfold L, S in Hj. lia. }
        assert (Hy' : y' = N.lxor y (mask_n L S)) by (unfold y'; apply xor_mask_eq; lia).
        assert (Hy'bits : forall j, N.testbit y' j = xorb (N.testbit y j) ((L <=? j) && (j <? S))).
        { intros j. rewrite Hy', N.lxor_spec, mask_n_bits by exact HLS. reflexivity. }
        eexists. exists yf. split; [reflexivity|].
        split; [|split; [|split]].
        -- cbn [tsum]. rewrite G4. rewrite <- (xor_mask_sub y L S HLS Hones), <- Hy', <- E2.
           clear. lia.
        -- cbn [chained]. repeat split; try assumption.
        -- intros j Hj. apply E4 in Hj. rewrite Hy'bits in Hj.
           destruct ((L <=? j) && (j <? S)) eqn:R.
           ++ apply Hones. clear - R. lia.
           ++ now rewrite xorb_false_r in Hj.
        -- constructor; [|exact E5].
           exists (Z.to_N (s - i')). cbn [D E]. fold L.
           split; [clear - CK; lia|]. split; [rewrite ones_n_eq; apply ones_size|].
           intros j Hj. destruct (N.testbit yf j) eqn:B; [|reflexivity].
           apply E4 in B. rewrite Hy'bits in B. rewrite Hones in B by (unfold L, S in *; lia).
           replace ((L <=? j) && (j <? S)) with true in B by (unfold L, S in *; lia).
           discriminate.
  - exists [], y. repeat split; try exact I; try constructor. auto.
Qed.

(* ------------------------------------------------------------------ *)
(* SortByExponent                                                      *)
(* ------------------------------------------------------------------ *)

Lemma insert_perm t : forall l, Permutation (t :: l) (insert_by_exponent t l).
Proof.
  induction l as [|u r IH]; cbn [insert_by_exponent]; [reflexivity|].
  destruct (E u <? E t); [|reflexivity].
  etransitivity; [apply perm_swap|]. now apply perm_skip.
Qed.

Lemma sort_perm : forall l, Permutation l (sort_by_exponent l).
Proof.
  induction l as [|t r IH]; cbn [sort_by_exponent fold_right]; [constructor|].
  etransitivity; [apply perm_skip, IH|]. apply insert_perm.
Qed.

Definition leE (a b : term) : Prop := E a <= E b.
Definition ltE (a b : term) : Prop := E a < E b.

Lemma insertE_sorted t : forall l, StronglySorted leE l -> StronglySorted leE (insert_by_exponent t l).
Proof.
  induction l as [|u r IH]; intros H; cbn [insert_by_exponent].
  - repeat constructor.
  - inversion H as [|? ? Hr Hu]; subst. destruct (E u <? E t) eqn:C.
    + constructor; [now apply IH|].
      eapply Permutation_Forall; [apply insert_perm|]. constructor; [unfold leE; lia|exact Hu].
    + constructor; [exact H|]. constructor; [unfold leE; lia|].
      eapply Forall_impl; [|exact Hu]. unfold leE. intros; lia.
Qed.

Lemma sort_sorted : forall l, StronglySorted leE (sort_by_exponent l).
Proof.
  induction l as [|t r IH]; cbn [sort_by_exponent fold_right]; [constructor|].
  apply insertE_sorted. exact IH.
Qed.

(* a symmetric pairwise relation does not care about the order of the list *)
Lemma ss_perm_sym (R : term -> term -> Prop) : (forall a b, R a b -> R b a) ->
  forall l l', Permutation l l' -> StronglySorted R l -> StronglySorted R l'.
Proof.
  intros Hsym. induction 1 as [|a l l' Hp IH|a b l|l l' l'' H1 IH1 H2 IH2]; intros H.
  - exact H.
  - inversion H as [|? ? Hr Ha]; subst. constructor; [now apply IH|].
    eapply Permutation_Forall; [exact Hp|exact Ha].
  - inversion H as [|? ? Hr Hb]; subst. inversion Hr as [|? ? Hl Ha]; subst.
    inversion Hb as [|? ? Hba Hbl]; subst.
    constructor; [constructor; assumption|]. constructor; [now apply Hsym|assumption].
  - auto.
Qed.

Lemma ss_app (R : term -> term -> Prop) : forall l1 l2,
  StronglySorted R l1 -> StronglySorted R l2 -> (forall a b, In a l1 -> In b l2 -> R a b) ->
  StronglySorted R (l1 ++ l2).
Proof.
  induction l1 as [|a r IH]; intros l2 H1 H2 Hc; cbn [app]; [exact H2|].
  inversion H1 as [|? ? Hr Ha]; subst. constructor.
  - apply IH; try assumption. intros x y Hx Hy. apply Hc; [now right|exact Hy].
  - apply Forall_app. split; [exact Ha|]. apply Forall_forall. intros y Hy. apply Hc; [now left|exact Hy].
Qed.

Lemma ss_impl (R R' : term -> term -> Prop) : (forall a b, R a b -> R' a b) ->
  forall l, StronglySorted R l -> StronglySorted R' l.
Proof.
  intros Hi. induction 1 as [|a l Hl IH Ha]; constructor; [exact IH|].
  eapply Forall_impl; [|exact Ha]. intros b. apply Hi.
Qed.

Lemma disj_sym a b : disj a b -> disj b a.
Proof. unfold disj. tauto. Qed.

(* sorted by exponent + pairwise disjoint ranges + positive: ranges are in order *)
Lemma sorted_disj_before : forall l, StronglySorted leE l -> StronglySorted disj l -> Forall posD l ->
  StronglySorted before l.
Proof.
  induction l as [|a r IH]; intros H1 H2 H3; [constructor|].
  inversion H1 as [|? ? S1 F1]; subst. inversion H2 as [|? ? S2 F2]; subst.
  inversion H3 as [|? ? Pa Pr]; subst.
  constructor; [now apply IH|].
  apply Forall_forall. intros b Hb.
  rewrite Forall_forall in F1, F2, Pr. specialize (F1 b Hb). specialize (F2 b Hb). specialize (Pr b Hb).
  destruct F2 as [F2|F2]; [exact F2|]. exfalso.
  unfold before, hi, leE, posD in *. pose proof (size_pos (D b) Pr). lia.
Qed.

Lemma before_ltE l : Forall posD l -> StronglySorted before l -> StronglySorted ltE l.
Proof.
  intros HP H. induction H as [|a r Hr IH Ha]; [constructor|].
  inversion HP as [|? ? Pa Pr]; subst. constructor; [now apply IH|].
  eapply Forall_impl; [|exact Ha]. intros b Hb. unfold before, hi, ltE, posD in *.
  pose proof (size_pos (D a) Pa). lia.
Qed.

Lemma ss_fop (R : term -> term -> Prop) l : StronglySorted R l -> ForallOrdPairs R l.
Proof. induction 1; constructor; assumption. Qed.

(* what every method establishes about its unsorted term list, and what follows after sorting *)
Record raw_ok (P : term -> Prop) (x : N) (raw : list term) : Prop := {
  raw_sum : tsum raw = x;
  raw_disj : StronglySorted disj raw;
  raw_pos : Forall posD raw;
  raw_shape : Forall P raw }.

Record sum_ok (P : term -> Prop) (x : N) (s : list term) : Prop := {
  ok_sum : sum_int s = x;
  ok_sorted : StronglySorted ltE s;
  ok_pos : Forall posD s;
  ok_disjoint : ForallOrdPairs before s;
  ok_shape : Forall P s }.

Lemma raw_perm P x a b : Permutation a b -> raw_ok P x a -> raw_ok P x b.
Proof.
  intros Hp [H1 H2 H3 H4]. constructor.
  - rewrite <- (tsum_perm _ _ Hp). exact H1.
  - eapply ss_perm_sym; [exact disj_sym|exact Hp|exact H2].
  - eapply Permutation_Forall; [exact Hp|exact H3].
  - eapply Permutation_Forall; [exact Hp|exact H4].
Qed.

Lemma sort_finish P x raw : raw_ok P x raw -> sum_ok P x (sort_by_exponent raw).
Proof.
  intros H. apply (raw_perm P x _ _ (sort_perm raw)) in H. destruct H as [H1 H2 H3 H4].
  pose proof (sorted_disj_before _ (sort_sorted raw) H2 H3) as Hb.
  constructor; try assumption.
  - rewrite sum_int_eq. exact H1.
  - now apply before_ltE.
  - now apply ss_fop.
Qed.

Lemma chained_raw P x top ts : tsum ts = x -> chained P top ts -> raw_ok P x ts.
Proof.
  intros Hs Hc. destruct (chained_facts P ts top Hc) as (A & B & C).
  constructor; try assumption.
  eapply ss_impl; [|exact C]. intros a b Hab. right. exact Hab.
Qed.

Lemma mod_size x : x mod 2 ^ N.size x = x.
Proof. apply N.mod_small, N.size_gt. Qed.

(* ------------------------------------------------------------------ *)
(* The four methods                                                    *)
(* ------------------------------------------------------------------ *)

Definition slidingShape (K : N) (t : term) : Prop := N.odd (D t) = true /\ N.size (D t) <= K.
Definition runShape (T : N) (t : term) : Prop := exists w, D t = 2 ^ w - 1 /\ (0 < T -> w <= T).
Definition hybridShape (K T : N) (t : term) : Prop :=
  N.odd (D t) = true /\
  (N.size (D t) <= K \/ exists w, D t = 2 ^ w - 1 /\ K < w /\ (0 < T -> w <= T)).

Theorem fixed_ok K x : 1 <= K ->
  exists s, fixed_decompose K x = Ok s /\ sum_ok (fixedP K) x s.
Proof.
  intros HK. unfold fixed_decompose. rewrite bitlen_int_eq, fuel_of_eq.
  destruct (fixed_loop_spec x K HK (S (N.to_nat (N.size x))) (Z.of_N (N.size x)) ltac:(lia) ltac:(lia))
    as (ts & E1 & E2 & E3).
  rewrite E1. cbn [obind]. eexists. split; [reflexivity|]. apply sort_finish.
  rewrite N2Z.id in *. rewrite mod_size in E2. eapply chained_raw; eassumption.
Qed.

Lemma sliding_raw K x : 1 <= K ->
  exists ts, sliding_loop (fuel_of x) x K (bitlen_int x - 1) = Ok ts /\ raw_ok (slidingP x K) x ts.
Proof.
  intros HK. rewrite bitlen_int_eq, fuel_of_eq.
  destruct (sliding_loop_spec x K HK (S (N.to_nat (N.size x))) (Z.of_N (N.size x) - 1) ltac:(lia) ltac:(lia))
    as (ts & E1 & E2 & E3).
  exists ts. split; [exact E1|].
  replace (topn (Z.of_N (N.size x) - 1)) with (N.size x) in * by (unfold topn; lia).
  rewrite mod_size in E2. eapply chained_raw; eassumption.
Qed.

Lemma slidingP_shape x K t : slidingP x K t -> slidingShape K t.
Proof. intros H. split; [eapply slidingP_odd|eapply slidingP_size]; exact H. Qed.

Lemma sum_ok_impl (P Q : term -> Prop) x s : (forall t, P t -> Q t) -> sum_ok P x s -> sum_ok Q x s.
Proof. intros Hi [H1 H2 H3 H4 H5]. constructor; try assumption. eapply Forall_impl; [|exact H5]. exact Hi. Qed.

Theorem sliding_ok K x : 1 <= K ->
  exists s, sliding_decompose K x = Ok s /\ sum_ok (slidingShape K) x s.
Proof.
  intros HK. unfold sliding_decompose. destruct (sliding_raw K x HK) as (ts & E1 & E2).
  rewrite E1. cbn [obind]. eexists. split; [reflexivity|].
  eapply sum_ok_impl; [apply slidingP_shape|]. apply sort_finish. exact E2.
Qed.

Lemma runP_shape K T t : runP K T t -> runShape T t.
Proof. intros (w & A & B & C). exists w. auto. Qed.

Theorem runlength_ok T x :
  exists s, runlength_decompose T x = Ok s /\ sum_ok (runShape T) x s.
Proof.
  unfold runlength_decompose. rewrite bitlen_int_eq, fuel_of_eq.
  destruct (runlength_loop_spec x T (S (N.to_nat (N.size x))) (Z.of_N (N.size x) - 1) ltac:(lia) ltac:(lia))
    as (ts & E1 & E2 & E3).
  rewrite E1. cbn [obind]. eexists. split; [reflexivity|].
  replace (topn (Z.of_N (N.size x) - 1)) with (N.size x) in * by (unfold topn; lia).
  rewrite mod_size in E2.
  eapply sum_ok_impl; [apply (runP_shape 0)|]. apply sort_finish. eapply chained_raw; eassumption.
Qed.

(* a cleared range of more than K bits and a window of at most K bits with set ends are apart *)
Lemma cross_disj y K a b : cleared y K a -> slidingP y K b -> disj a b.
Proof.
  intros (w & Hw & Hsz & Hz) (h & A & B & C & Dd & F).
  assert (Sb : N.size (D b) <= h + 1 - E b) by (rewrite F; apply size_le_of_lt, ext_lt).
  assert (N1 : ~ (E a <= E b < E a + w)) by (intros X; rewrite (Hz _ X) in C; discriminate).
  assert (N2 : ~ (E a <= h < E a + w)) by (intros X; rewrite (Hz _ X) in Dd; discriminate).
  unfold disj, before, hi. clear - Hw Hsz A B Sb N1 N2. lia.
Qed.

Lemma runP_hybridShape K T t : runP K T t -> hybridShape K T t.
Proof.
  intros (w & A & B & C). split.
  - rewrite B. apply ones_odd. lia.
  - right. exists w. auto.
Qed.

Lemma slidingP_hybridShape x K T t : slidingP x K t -> hybridShape K T t.
Proof. intros H. split; [eapply slidingP_odd|left; eapply slidingP_size]; exact H. Qed.

Theorem hybrid_ok K T x : 1 <= K ->
  exists s, hybrid_decompose K T x = Ok s /\ sum_ok (hybridShape K T) x s.
Proof.
  intros HK. unfold hybrid_decompose. rewrite bitlen_int_eq, fuel_of_eq.
  destruct (hybrid_loop_spec K T (S (N.to_nat (N.size x))) x (Z.of_N (N.size x) - 1) ltac:(lia) ltac:(lia))
    as (runs & yf & E1 & E2 & E3 & E4 & E5).
  rewrite E1. cbn [obind fst snd]. unfold sliding_decompose.
  destruct (sliding_raw K yf HK) as (ts & S1 & S2).
  rewrite S1. cbn [obind]. eexists. split; [reflexivity|]. apply sort_finish.
  pose proof (raw_perm _ _ _ _ (sort_perm ts) S2) as [R1 R2 R3 R4].
  destruct (chained_facts _ _ _ E3) as (C1 & C2 & C3).
  constructor.
  - rewrite tsum_app, R1. exact E2.
  - apply ss_app; [|exact R2|].
    + eapply ss_impl; [|exact C3]. intros a b Hab. right. exact Hab.
    + intros a b Ha Hb. rewrite Forall_forall in E5, R4. eapply cross_disj; [apply E5, Ha|apply R4, Hb].
  - apply Forall_app. split; assumption.
  - apply Forall_app. split.
    + eapply Forall_impl; [|exact C1]. apply runP_hybridShape.
    + eapply Forall_impl; [|exact R4]. apply slidingP_hybridShape.
Qed.

(* ------------------------------------------------------------------ *)
(* All methods at once                                                 *)
(* ------------------------------------------------------------------ *)

Definition valid_method (m : method) : Prop :=
  match m with
  | Fixed K | Sliding K | Hybrid K _ => 1 <= K
  | RunLength _ => True
  end.

Definition shape (m : method) (t : term) : Prop :=
  match m with
  | Fixed K => N.size (D t) <= K
  | Sliding K => slidingShape K t
  | RunLength T => runShape T t
  | Hybrid K T => hybridShape K T t
  end.

Theorem decompose_ok m x : valid_method m ->
  exists s, decompose m x = Ok s /\ sum_ok (shape m) x s.
Proof.
  destruct m as [K|K|T|K T]; cbn [valid_method decompose shape]; intros H.
  - exact (fixed_ok K x H).
  - exact (sliding_ok K x H).
  - exact (runlength_ok T x).
  - exact (hybrid_ok K T x H).
Qed.

(* ------------------------------------------------------------------ *)
(* Dictionary: bigints.Sort then bigints.Unique of the D values        *)
(* ------------------------------------------------------------------ *)

Lemma zinsert_perm x : forall l, Permutation (x :: l) (insert_sorted x l).
Proof.
  induction l as [|y r IH]; cbn [insert_sorted]; [reflexivity|].
  destruct (x <=? y)%Z; [reflexivity|].
  etransitivity; [apply perm_swap|]. now apply perm_skip.
Qed.

Lemma zsort_perm : forall l, Permutation l (sort l).
Proof.
  induction l as [|x r IH]; cbn [sort fold_right]; [constructor|].
  etransitivity; [apply perm_skip, IH|]. apply zinsert_perm.
Qed.

Lemma zinsert_sorted x : forall l, StronglySorted Z.le l -> StronglySorted Z.le (insert_sorted x l).
Proof.
  induction l as [|y r IH]; intros H; cbn [insert_sorted].
  - repeat constructor.
  - inversion H as [|? ? Hr Hy]; subst. destruct (x <=? y)%Z eqn:C.
    + constructor; [exact H|]. constructor; [lia|].
      eapply Forall_impl; [|exact Hy]. intros; lia.
    + constructor; [now apply IH|].
      eapply Permutation_Forall; [apply zinsert_perm|]. constructor; [lia|exact Hy].
Qed.

Lemma zsort_sorted : forall l, StronglySorted Z.le (sort l).
Proof.
  induction l as [|x r IH]; cbn [sort fold_right]; [constructor|]. now apply zinsert_sorted.
Qed.

Lemma unique_from_in last : forall xs x, In x (unique_from last xs) -> In x xs.
Proof.
  intros xs. revert last. induction xs as [|y r IH]; intros last x H; cbn [unique_from] in H; [exact H|].
  destruct (y =? last)%Z.
  - right. eapply IH. exact H.
  - destruct H as [H|H]; [now left|right; eapply IH; exact H].
Qed.

Lemma in_unique_from : forall xs last x, In x xs -> x = last \/ In x (unique_from last xs).
Proof.
  induction xs as [|y r IH]; intros last x H; [destruct H|]. cbn [unique_from].
  destruct (y =? last)%Z eqn:C.
  - destruct H as [H|H]; [left; lia|]. now apply IH.
  - destruct H as [H|H]; [right; now left|].
    destruct (IH y x H) as [G|G]; right; [left; now symmetry|now right].
Qed.

Lemma unique_in xs x : In x (unique xs) <-> In x xs.
Proof.
  destruct xs as [|y r]; cbn [unique]; [tauto|]. split.
  - intros [H|H]; [now left|right; eapply unique_from_in; exact H].
  - intros [H|H]; [now left|]. destruct (in_unique_from r y x H) as [G|G]; [left; now symmetry|now right].
Qed.

Lemma unique_from_sorted : forall xs last, StronglySorted Z.le xs -> Forall (Z.le last) xs ->
  StronglySorted Z.lt (unique_from last xs) /\ Forall (Z.lt last) (unique_from last xs).
Proof.
  induction xs as [|y r IH]; intros last Hs Hl; cbn [unique_from]; [split; constructor|].
  inversion Hs as [|? ? Hr Hy]; subst. inversion Hl as [|? ? L1 L2]; subst.
  destruct (y =? last)%Z eqn:C.
  - apply IH; assumption.
  - destruct (IH y Hr Hy) as (A & B). split.
    + constructor; assumption.
    + constructor; [lia|]. eapply Forall_impl; [|exact B]. intros; lia.
Qed.

Lemma unique_sorted xs : StronglySorted Z.le xs -> StronglySorted Z.lt (unique xs).
Proof.
  destruct xs as [|y r]; cbn [unique]; [constructor|]. intros H.
  inversion H as [|? ? Hr Hy]; subst. destruct (unique_from_sorted r y Hr Hy) as (A & B).
  constructor; assumption.
Qed.

Lemma map_to_N_sorted : forall l, Forall (Z.le 0) l -> StronglySorted Z.lt l ->
  StronglySorted N.lt (map Z.to_N l).
Proof.
  induction l as [|a r IH]; intros Hp Hs; cbn [map]; [constructor|].
  inversion Hp as [|? ? Pa Pr]; subst. inversion Hs as [|? ? Sr Sa]; subst.
  constructor; [now apply IH|]. apply Forall_forall. intros b Hb.
  apply in_map_iff in Hb. destruct Hb as (z & <- & Hz).
  rewrite Forall_forall in Sa, Pr. specialize (Sa z Hz). specialize (Pr z Hz). lia.
Qed.

(* the dictionary is the strictly increasing list of exactly the D values of the sum *)
Theorem dictionary_spec s :
  StronglySorted N.lt (dictionary s) /\
  forall d, In d (dictionary s) <-> exists t, In t s /\ D t = d.
Proof.
  unfold dictionary. set (ds := map (fun t => Z.of_N (D t)) s).
  assert (Hin : forall z, In z (unique (sort ds)) <-> In z ds).
  { intros z. rewrite unique_in. split; intros H.
    - eapply Permutation_in; [symmetry; apply zsort_perm|exact H].
    - eapply Permutation_in; [apply zsort_perm|exact H]. }
  split.
  - apply map_to_N_sorted.
    + apply Forall_forall. intros z Hz. apply Hin in Hz. unfold ds in Hz.
      apply in_map_iff in Hz. destruct Hz as (t & <- & _). lia.
    + apply unique_sorted, zsort_sorted.
  - intros d. rewrite in_map_iff. split.
    + intros (z & <- & Hz). apply Hin in Hz. unfold ds in Hz. apply in_map_iff in Hz.
      destruct Hz as (t & <- & Ht). exists t. split; [exact Ht|]. now rewrite N2Z.id.
    + intros (t & Ht & <-). exists (Z.of_N (D t)). split; [apply N2Z.id|].
      apply Hin. unfold ds. apply in_map_iff. exists t. split; [reflexivity|exact Ht].
Qed.

(* ------------------------------------------------------------------ *)
(* Why insertion models sort.Slice here: with pairwise distinct        *)
(* exponents the ascending arrangement is unique                       *)
(* ------------------------------------------------------------------ *)

Lemma ltE_head_unique a l b l' :
  StronglySorted ltE (a :: l) -> StronglySorted ltE (b :: l') -> Permutation (a :: l) (b :: l') -> a = b.
Proof.
  intros H1 H2 Hp. inversion H1 as [|? ? S1 F1]; subst. inversion H2 as [|? ? S2 F2]; subst.
  assert (Ia : In a (b :: l')) by (eapply Permutation_in; [exact Hp|now left]).
  assert (Ib : In b (a :: l)) by (eapply Permutation_in; [symmetry; exact Hp|now left]).
  destruct Ia as [Ia|Ia]; [now symmetry|]. destruct Ib as [Ib|Ib]; [exact Ib|]. exfalso.
  rewrite Forall_forall in F1, F2. specialize (F1 b Ib). specialize (F2 a Ia). unfold ltE in *. lia.
Qed.

Theorem sorted_unique : forall l l', StronglySorted ltE l -> StronglySorted ltE l' -> Permutation l l' -> l = l'.
Proof.
  induction l as [|a r IH]; intros l' H1 H2 Hp.
  - apply Permutation_nil in Hp. now symmetry.
  - destruct l' as [|b r']; [apply Permutation_sym, Permutation_nil in Hp; discriminate|].
    pose proof (ltE_head_unique _ _ _ _ H1 H2 Hp) as ->. f_equal.
    inversion H1; subst. inversion H2; subst. apply IH; try assumption.
    eapply Permutation_cons_inv. exact Hp.
Qed.

(* any E-ascending rearrangement of the raw terms (what sort.Slice returns) is the model's list *)
Corollary sort_slice_unique P x s s' : sum_ok P x s -> Permutation s s' -> StronglySorted ltE s' -> s' = s.
Proof. intros [_ H _ _ _] Hp H'. symmetry. now apply sorted_unique. Qed.

(* ------------------------------------------------------------------ *)
(* K = 0: FixedWindow and SlidingWindow never return                   *)
(* ------------------------------------------------------------------ *)

Lemma fixed_loop_K0 x : forall fuel h, (0 < h)%Z -> fixed_loop fuel x 0 h = OutOfFuel.
Proof.
  induction fuel as [|f IH]; intros h Hh; cbn [fixed_loop]; [reflexivity|].
  replace (0 <? h)%Z with true by lia. replace (Z.max (h - Z.of_N 0) 0) with h by lia.
  rewrite IH by exact Hh. reflexivity.
Qed.

Theorem fixed_K0_diverges x : 1 <= x -> decompose (Fixed 0) x = OutOfFuel.
Proof.
  intros Hx. cbn [decompose]. unfold fixed_decompose. rewrite fixed_loop_K0; [reflexivity|].
  rewrite bitlen_int_eq. pose proof (size_pos x ltac:(lia)). lia.
Qed.

Lemma scan_up_above x : forall fuel l, (Z.of_N (N.size x) <= l)%Z -> scan_up fuel x l = OutOfFuel.
Proof.
  induction fuel as [|f IH]; intros l Hl; cbn [scan_up]; [reflexivity|].
  rewrite bit_eq by lia. rewrite bit_above_size by lia. apply IH. lia.
Qed.

Lemma top_bit x : 1 <= x -> N.testbit x (N.size x - 1) = true.
Proof.
  intros Hx. rewrite N.size_log2 by lia. replace (N.succ (N.log2 x) - 1) with (N.log2 x) by lia.
  apply N.bit_log2. lia.
Qed.

Theorem sliding_K0_diverges x : 1 <= x -> decompose (Sliding 0) x = OutOfFuel.
Proof.
  intros Hx. cbn [decompose]. unfold sliding_decompose. rewrite fuel_of_eq at 1. cbn [sliding_loop].
  rewrite bitlen_int_eq. pose proof (size_pos x ltac:(lia)) as Hs.
  replace (0 <=? Z.of_N (N.size x) - 1)%Z with true by lia.
  assert (F : find_one x (Z.of_N (N.size x) - 1) = (Z.of_N (N.size x) - 1)%Z).
  { unfold find_one. replace (Z.to_nat (Z.of_N (N.size x) - 1 + 1)) with (S (N.to_nat (N.size x) - 1)) by lia.
    cbn [find_one_steps]. rewrite bit_eq by lia.
    replace (Z.to_N (Z.of_N (N.size x) - 1)) with (N.size x - 1) by lia.
    rewrite top_bit by exact Hx. cbn [negb]. now rewrite andb_false_r. }
  rewrite F. replace (Z.of_N (N.size x) - 1 <? 0)%Z with false by lia.
  rewrite scan_up_above by lia. reflexivity.
Qed.

(* ------------------------------------------------------------------ *)
(* Interface used by the dictionary algorithms (C01)                   *)
(* ------------------------------------------------------------------ *)

Corollary decomp_interface m x : valid_method m ->
  exists s, decompose m x = Ok s /\ sum_int s = x /\ forall t, In t s -> 1 <= D t.
Proof.
  intros H. destruct (decompose_ok m x H) as (s & E1 & [H1 _ H3 _ _]).
  exists s. repeat split; try assumption. intros t Ht. rewrite Forall_forall in H3.
  specialize (H3 t Ht). unfold posD in H3. lia.
Qed.

Corollary runlength_ones T x s : decompose (RunLength T) x = Ok s ->
  forall t, In t s -> exists l, 1 <= l /\ (T = 0 \/ l <= T) /\ (Z.of_N (D t) = 2 ^ Z.of_N l - 1)%Z.
Proof.
  intros Hs t Ht. destruct (decompose_ok (RunLength T) x I) as (s' & E1 & [_ _ H3 _ H5]).
  rewrite Hs in E1. injection E1 as <-. rewrite Forall_forall in H3, H5.
  specialize (H3 t Ht). destruct (H5 t Ht) as (w & Hw & HT). unfold posD in H3.
  exists w. assert (1 <= w).
  { destruct (N.eq_dec w 0) as [->|]; [|lia]. rewrite Hw in H3. cbn in H3. lia. }
  split; [assumption|]. split; [lia|].
  rewrite Hw. pose proof (p2_gt0 w). rewrite N2Z.inj_sub by lia. rewrite N2Z.inj_pow. reflexivity.
Qed.

(* ------------------------------------------------------------------ *)
(* The statements of props/C09.v                                       *)
(* ------------------------------------------------------------------ *)

Lemma decompose_ok_inv m x s : valid_method m -> decompose m x = Ok s -> sum_ok (shape m) x s.
Proof.
  intros H Hs. destruct (decompose_ok m x H) as (s' & E1 & Hok). rewrite Hs in E1.
  injection E1 as <-. exact Hok.
Qed.

(* fuel adequacy: the entry point returns normally (never OutOfFuel, Err or Panic) *)
Lemma decomp_returns m x : valid_method m -> exists s, decompose m x = Ok s.
Proof. intros H. destruct (decompose_ok m x H) as (s & E1 & _). now exists s. Qed.

Lemma decomp_sum m x s : valid_method m -> decompose m x = Ok s -> sum_int s = x.
Proof. intros H Hs. now destruct (decompose_ok_inv m x s H Hs). Qed.

Lemma decomp_sorted m x s : valid_method m -> decompose m x = Ok s ->
  StronglySorted (fun a b => E a < E b) s.
Proof. intros H Hs. now destruct (decompose_ok_inv m x s H Hs). Qed.

Lemma decomp_positive m x s : valid_method m -> decompose m x = Ok s -> Forall (fun t => 0 < D t) s.
Proof. intros H Hs. now destruct (decompose_ok_inv m x s H Hs). Qed.

Lemma decomp_disjoint m x s : valid_method m -> decompose m x = Ok s ->
  ForallOrdPairs (fun a b => E a + N.size (D a) <= E b) s.
Proof. intros H Hs. now destruct (decompose_ok_inv m x s H Hs). Qed.

Lemma decomp_shape m x s : valid_method m -> decompose m x = Ok s -> Forall (shape m) s.
Proof. intros H Hs. now destruct (decompose_ok_inv m x s H Hs). Qed.

Lemma shape_fixed K x s : 1 <= K -> decompose (Fixed K) x = Ok s ->
  Forall (fun t => N.size (D t) <= K) s.
Proof. intros H Hs. exact (decomp_shape (Fixed K) x s H Hs). Qed.

Lemma shape_sliding K x s : 1 <= K -> decompose (Sliding K) x = Ok s ->
  Forall (fun t => N.odd (D t) = true /\ N.size (D t) <= K) s.
Proof. intros H Hs. exact (decomp_shape (Sliding K) x s H Hs). Qed.

Lemma shape_runlength T x s : decompose (RunLength T) x = Ok s ->
  Forall (fun t => exists w, D t = 2 ^ w - 1 /\ (0 < T -> w <= T)) s.
Proof. intros Hs. exact (decomp_shape (RunLength T) x s I Hs). Qed.

Lemma shape_hybrid K T x s : 1 <= K -> decompose (Hybrid K T) x = Ok s ->
  Forall (fun t => N.odd (D t) = true /\
                   (N.size (D t) <= K \/ exists w, D t = 2 ^ w - 1 /\ K < w /\ (0 < T -> w <= T))) s.
Proof. intros H Hs. exact (decomp_shape (Hybrid K T) x s H Hs). Qed.

Lemma sort_slice_justified m x s s' : valid_method m -> decompose m x = Ok s ->
  Permutation s s' -> StronglySorted (fun a b => E a < E b) s' -> s' = s.
Proof. intros H Hs. eapply sort_slice_unique. exact (decompose_ok_inv m x s H Hs). Qed.
