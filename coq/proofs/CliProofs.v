(* C15: the command-line model and the text entry points never reach a `Panic` constructor and
   never run out of fuel.  Every `Panic` in the composed models marks an unchecked index / division /
   `make` of the Go code; each lemma below is the argument that its guard makes it unreachable. *)
From Coq Require Import String.
From Coq Require Import List NArith ZArith Bool Arith Lia ZifyBool ZifyNat ZifyN.
From AV Require Import model.Proto model.Chain model.Program model.Ast model.Ir model.Bits.
From AV Require Import model.Printer model.Peg model.Translate.
From AV Require Import proofs.ProgramProofs proofs.PegFuel proofs.TranslateBasics proofs.TranslateProofs.
From AV Require Import proofs.DecompileProofs proofs.NamingProofs proofs.BuildProofs proofs.CalcProofs.
From AV Require Import model.Decompile model.Naming model.Build.
From AV Require Import model.Alloc model.Interp model.Gen model.Cli.
From AV Require model.Calc model.Par proofs.ParProofs.
Import ListNotations.
Open Scope Z_scope.

(* an entry point answered: a value or an error *)
Definition answers {A} (o : outcome A) : Prop :=
  match o with Ok _ | Err _ => True | Panic _ | OutOfFuel => False end.

Lemma answers_obind {A B} (o : outcome A) (f : A -> outcome B) :
  answers o -> (forall a, o = Ok a -> answers (f a)) -> answers (obind o f).
Proof. destruct o as [a|c|c|]; cbn [obind answers]; auto. Qed.

Lemma answers_ok_or_err {A} (o : outcome A) : answers o <-> (exists a, o = Ok a) \/ (exists c, o = Err c).
Proof.
  destruct o as [a|c|c|]; cbn [answers]; split; intros H; eauto; try tauto;
    destruct H as [[a' H]|[c' H]]; discriminate.
Qed.

(* ---------------------------------------------------------------- parse *)
Lemma parse_answers s : answers (parse s).
Proof.
  pose proof (parse_fuel_adequate s) as H. unfold parse in *.
  destruct (p_chain (S (length s)) s) as [e|[|] c r|]; cbn [answers]; auto.
Qed.

(* ---------------------------------------------------------------- translate *)
(* Panic sites: obj_index (heap read by object id) and the final resolution of object ids.  Object
   ids are positions of objects that were allocated before they are used (`valid`). *)
Lemma valid_init : valid tinit.
Proof. split; [constructor|]. exists []. reflexivity. Qed.

Lemma define_valid st name id : valid st -> (id < length (tobjs st))%nat ->
  match define st name id with
  | Ok st' => valid st' /\ tinstrs st' = tinstrs st
  | Err _ => True
  | _ => False
  end.
Proof.
  intros [Hv (zs & Hz)] Hid. unfold define. destruct (lookup name (tvars st)); [exact I|].
  pose proof (ext_set_name (tobjs st) id name) as He. split; [split|reflexivity].
  - cbn [tobjs tvars]. rewrite set_name_length. constructor; [exact Hid|exact Hv].
  - exists zs. cbn [tobjs tinstrs]. eapply zview_ext; eauto.
Qed.

(* no instruction Translate emits is a shift by zero *)
Definition pos_top (o : top) : Prop := match o with TShift _ s => s <> 0%N | _ => True end.
Definition pos_t (is : list tinstr) : Prop := Forall (fun i => pos_top (topn i)) is.

Lemma pos_t_snoc is i : pos_t is -> pos_top (topn i) -> pos_t (is ++ [i]).
Proof. intros H Hi. apply Forall_app. split; [exact H|]. constructor; [exact Hi|constructor]. Qed.

Lemma t_expr_pos e : forall st id st', t_expr e st = Ok (id, st') -> pos_t (tinstrs st) -> pos_t (tinstrs st').
Proof.
  induction e as [i|s|x IHx y IHy|x IHx s|x IHx]; intros st id st' H Hp; cbn [t_expr] in H.
  - injection H as _ <-. exact Hp.
  - destruct (lookup s (tvars st)); [|discriminate]. injection H as _ <-. exact Hp.
  - destruct (t_expr x st) as [[ix st1]|c|c|] eqn:Ex; cbn [obind] in H; try discriminate.
    destruct (t_expr y st1) as [[iy st2]|c|c|] eqn:Ey; cbn [obind] in H; try discriminate.
    destruct (obj_index st2 ix) as [vx|c|c|]; cbn [obind] in H; try discriminate.
    destruct (obj_index st2 iy) as [vy|c|c|]; cbn [obind] in H; try discriminate.
    pose proof (IHy _ _ _ Ey (IHx _ _ _ Ex Hp)) as H2.
    destruct (vx >? vy); injection H as _ <-; cbn [emit snd tinstrs]; apply pos_t_snoc; auto; exact I.
  - destruct (t_expr x st) as [[ix st1]|c|c|] eqn:Ex; cbn [obind] in H; try discriminate.
    pose proof (IHx _ _ _ Ex Hp) as H1.
    destruct (s =? 0)%N eqn:Es.
    + injection H as _ <-. exact H1.
    + injection H as _ <-. cbn [emit snd tinstrs]. apply pos_t_snoc; [exact H1|].
      cbn [topn pos_top]. now apply N.eqb_neq.
  - destruct (t_expr x st) as [[ix st1]|c|c|] eqn:Ex; cbn [obind] in H; try discriminate.
    injection H as _ <-. cbn [emit snd tinstrs]. apply pos_t_snoc; [eauto|exact I].
Qed.

Lemma t_stmts_valid ss : forall st, valid st -> pos_t (tinstrs st) ->
  match t_stmts ss st with
  | Ok st' => valid st' /\ pos_t (tinstrs st')
  | Err _ => True
  | _ => False
  end.
Proof.
  induction ss as [|s ss IH]; intros st Hv Hp; cbn [t_stmts]; [auto|].
  unfold t_stmt. pose proof (t_expr_shape (sexpr s) st Hv) as H.
  destruct (t_expr (sexpr s) st) as [[id st1]|c|c|] eqn:Ee; cbn [obind]; auto.
  destruct H as (Hv1 & Hid & _). pose proof (define_valid st1 (sname s) id Hv1 Hid) as Hd.
  destruct (define st1 (sname s) id) as [st'|c0|c0|]; cbn [obind]; auto.
  destruct Hd as [Hv' Hi]. apply IH; [exact Hv'|]. rewrite Hi. eapply t_expr_pos; eauto.
Qed.

Lemma resolve_pos objs : forall is P, map_opt (resolve_instr objs) is = Some P -> pos_t is -> pos_shifts P.
Proof.
  induction is as [|i is IH]; intros P H Hp; cbn [map_opt] in H.
  - injection H as <-. intros j [].
  - destruct (resolve_instr objs i) as [r|] eqn:Er; [|discriminate].
    destruct (map_opt (resolve_instr objs) is) as [P'|] eqn:Em; [|discriminate].
    injection H as <-. inversion Hp as [|? ? Hi Hr]; subst.
    intros j [<-|Hj]; [|now apply (IH P')].
    unfold resolve_instr in Er. destruct (nth_error objs (tout i)) as [oo|]; [|discriminate].
    destruct (resolve_op objs (topn i)) as [ro|] eqn:Eo; [|discriminate]. injection Er as <-. cbn [iopn].
    destruct (topn i) as [x y|x|x s]; cbn [resolve_op] in Eo.
    + destruct (nth_error objs x), (nth_error objs y); try discriminate. injection Eo as <-. cbn [width]. lia.
    + destruct (nth_error objs x); try discriminate. injection Eo as <-. cbn [width]. lia.
    + destruct (nth_error objs x); try discriminate. injection Eo as <-. cbn [width]. cbn [pos_top] in Hi. lia.
Qed.

(* Translate: a program, or an error; and no shift by zero in the program *)
Lemma translate_shape c :
  match translate c with
  | Ok P => pos_shifts P
  | Err _ => True
  | _ => False
  end.
Proof.
  unfold translate. pose proof (t_stmts_valid c tinit valid_init) as H.
  destruct (t_stmts c tinit) as [st|cl|cl|]; cbn [obind]; auto; try (apply H; constructor).
  destruct H as [[_ (zs & Hz)] Hp]; [constructor|].
  pose proof (resolve_zview (tobjs st) (tinstrs st)) as Hr.
  destruct (map_opt (resolve_instr (tobjs st)) (tinstrs st)) as [P|] eqn:Em.
  - eapply resolve_pos; eauto.
  - congruence.
Qed.

Lemma translate_answers c : answers (translate c).
Proof. pose proof (translate_shape c) as H. destruct (translate c); cbn [answers]; auto. Qed.

(* ---------------------------------------------------------------- Compile, Evaluate *)
(* Panic site: Program.Evaluate indexes the chain by the operands of every op.  The program comes out of
   Compile, whose builder calls bounds-check every operand, so it is well formed. *)
Lemma compile_step_is_step p i :
  compile_step p i = Program.step p (match iopn i with
                                     | IAdd x y => CAdd (oindex x) (oindex y)
                                     | IDouble x => CDouble (oindex x)
                                     | IShift x s => CShift (oindex x) s
                                     end).
Proof. unfold compile_step. destruct (iopn i); reflexivity. Qed.

Lemma tcompile_wf : forall is p p', Translate.compile_loop p is = Ok p' -> wf_program p -> wf_program p'.
Proof.
  induction is as [|i is IH]; intros p p' H Hw; cbn [Translate.compile_loop] in H.
  - now injection H as <-.
  - destruct (compile_step p i) as [p1 res] eqn:Es. rewrite compile_step_is_step in Es.
    destruct res as [out|c|c|]; cbn [obind] in H; try discriminate.
    destruct (out =? oindex (iout i)); [|discriminate].
    apply (IH p1 p' H).
    match type of Es with step p ?cl = _ => pose proof (step_wf p cl Hw) as H1 end. now rewrite Es in H1.
Qed.

Lemma ncompile_wf : forall P p p', Naming.compile_loop p P = Ok p' -> wf_program p -> wf_program p'.
Proof.
  induction P as [|i P IH]; intros p p' H Hw; cbn [Naming.compile_loop] in H.
  - now injection H as <-.
  - destruct (Program.step p (call_of (iopn i))) as [p1 res] eqn:Es.
    destruct res as [out|c|c|]; try discriminate.
    destruct (out =? oindex (iout i)); [|discriminate].
    apply (IH p1 p' H). pose proof (step_wf p (call_of (iopn i)) Hw) as H1. now rewrite Es in H1.
Qed.

(* the builder calls return an index or an error *)
Lemma step_answers p c : answers (snd (step p c)).
Proof.
  assert (Hdec : operands_ok p c \/ ~ operands_ok p c).
  { destruct c as [i j|i|i s]; cbn [operands_ok]; unfold in_range; lia. }
  destruct c as [i j|i|i s].
  - destruct Hdec as [H|H]; [rewrite (step_accept p (CAdd i j) I H)|rewrite (step_reject p (CAdd i j) I H)]; exact I.
  - destruct Hdec as [H|H]; [rewrite (step_accept p (CDouble i) I H)|rewrite (step_reject p (CDouble i) I H)]; exact I.
  - destruct (N.eq_dec s 0) as [->|Hs]; [rewrite step_shift_zero; exact I|].
    assert (Hn : shift_nonzero (CShift i s)) by (cbn [shift_nonzero]; lia).
    destruct Hdec as [H|H]; [rewrite (step_accept p _ Hn H)|rewrite (step_reject p _ Hn H)]; exact I.
Qed.

Lemma tcompile_answers : forall is p, answers (Translate.compile_loop p is).
Proof.
  induction is as [|i is IH]; intros p; cbn [Translate.compile_loop answers]; [exact I|].
  destruct (compile_step p i) as [p1 res] eqn:Es. rewrite compile_step_is_step in Es.
  match type of Es with step p ?cl = _ => pose proof (step_answers p cl) as Hr end. rewrite Es in Hr. cbn [snd] in Hr.
  destruct res as [out|c|c|]; cbn [obind answers] in *; auto.
  destruct (out =? oindex (iout i)); [apply IH|exact I].
Qed.

Lemma ncompile_answers : forall P p, answers (Naming.compile_loop p P).
Proof.
  induction P as [|i P IH]; intros p; cbn [Naming.compile_loop answers]; [exact I|].
  destruct (step p (call_of (iopn i))) as [p1 res] eqn:Es.
  pose proof (step_answers p (call_of (iopn i))) as Hr. rewrite Es in Hr. cbn [snd] in Hr.
  destruct res as [out|c|c|]; cbn [answers] in *; auto.
  destruct (out =? oindex (iout i)); [apply IH|exact I].
Qed.

(* Compile then Evaluate: a chain one longer than the program, or an error *)
Lemma evaluate_compiled p : wf_program p -> exists ch, evaluate p = Ok ch /\ length ch = S (length p).
Proof. intros H. destruct (evaluate_wf p H) as (c & E & Hl & _). eauto. Qed.

Lemma load_tree_shape c :
  match load_tree c with
  | Ok (_, p, ch) => length ch = S (length p)
  | Err _ => True
  | _ => False
  end.
Proof.
  unfold load_tree. pose proof (translate_answers c) as Ht.
  destruct (translate c) as [ir|cl|cl|]; cbn [obind answers] in *; auto.
  unfold Translate.compile. pose proof (tcompile_answers ir []) as Hc.
  destruct (Translate.compile_loop [] ir) as [p|cl|cl|] eqn:Ec; cbn [obind answers] in *; auto.
  destruct (evaluate_compiled p) as (ch & -> & Hl); [eapply tcompile_wf; [exact Ec|apply wf_nil]|].
  cbn [obind]. exact Hl.
Qed.

Lemma load_tree_answers c : answers (load_tree c).
Proof. pose proof (load_tree_shape c) as H. destruct (load_tree c) as [[[? ?] ?]|?|?|]; cbn [answers]; auto. Qed.

(* ---------------------------------------------------------------- eval: the dump loop *)
(* Panic site: p.Chain[n+1] for every n < len(p.Program); the chain is one longer than the program. *)
Lemma dump_ops_ok ch : forall p n, (n + length p < length ch)%nat -> exists b, dump_ops n p ch = Ok b.
Proof.
  induction p as [|o p IH]; intros n Hl; cbn [dump_ops]; [eauto|].
  cbn [length] in Hl. destruct (nth_error ch (S n)) as [v|] eqn:En.
  - destruct (IH (S n)) as (b & ->); [lia|]. cbn [obind]. eauto.
  - apply nth_error_None in En. lia.
Qed.

Lemma dump_eval_ok p ch : length ch = S (length p) -> exists b, dump_eval p ch = Ok b.
Proof.
  intros Hl. unfold dump_eval. destruct (dump_ops_ok ch p 0) as (b & ->); [lia|].
  cbn [obind]. destruct (count p). eauto.
Qed.

Lemma eval_tree_answers c : answers (eval_tree c).
Proof.
  unfold eval_tree. pose proof (load_tree_shape c) as H.
  destruct (load_tree c) as [[[ir p] ch]|cl|cl|]; cbn [obind answers] in *; auto.
  destruct (dump_eval_ok p ch H) as (b & ->). exact I.
Qed.

(* ---------------------------------------------------------------- print *)
Lemma fmt_plain_answers s : answers (fmt_tree false s).
Proof. exact I. Qed.

(* ---------------------------------------------------------------- Build *)
(* CanonicalizeOperands: a table, or the identifier-conflict error; its keys are operand indexes *)
Lemma zset_keys {A} a (v : A) : forall m k, In k (map fst (Alloc.zset a v m)) -> k = a \/ In k (map fst m).
Proof.
  induction m as [|[k' v'] m IH]; intros k H; cbn [Alloc.zset map fst In] in *.
  - destruct H as [<-|[]]. now left.
  - destruct (k' =? a) eqn:E; cbn [map fst In] in H.
    + destruct H as [<-|H]; auto.
    + destruct H as [<-|H]; [auto|]. destruct (IH k H); auto.
Qed.

Lemma canon_operand_shape m o :
  match canon_operand m o with
  | Ok m' => forall k, In k (map fst m') -> k = oindex o \/ In k (map fst m)
  | Err _ => True
  | _ => False
  end.
Proof.
  unfold canon_operand. destruct (Alloc.zlookup (oindex o) m) as [ex|].
  - destruct (negb (is_empty ex) && negb (is_empty (oname o)) && negb (str_eqb ex (oname o))); [exact I|].
    destruct (negb (is_empty (oname o))); [apply zset_keys|auto].
  - intros k [<-|H]; auto.
Qed.

Lemma canon_operands_shape : forall os m,
  match canon_operands m os with
  | Ok m' => forall k, In k (map fst m') -> In k (map oindex os) \/ In k (map fst m)
  | Err _ => True
  | _ => False
  end.
Proof.
  induction os as [|o os IH]; intros m; cbn [canon_operands]; [auto|].
  pose proof (canon_operand_shape m o) as H. destruct (canon_operand m o) as [m1|c|c|]; cbn [obind]; auto.
  specialize (IH m1). destruct (canon_operands m1 os) as [m2|c|c|]; auto.
  intros k Hk. cbn [map In]. destruct (IH k Hk) as [H1|H1]; [auto|]. destruct (H k H1) as [->|H2]; auto.
Qed.

Lemma canonicalize_shape : forall P m,
  match canonicalize m P with
  | Ok mf => forall k, In k (map fst (fst mf)) -> In k (operand_indexes P) \/ In k (map fst m)
  | Err _ => True
  | _ => False
  end.
Proof.
  induction P as [|i P IH]; intros m; cbn [canonicalize]; [cbn [fst]; auto|].
  pose proof (canon_operands_shape (inputs (iopn i)) m) as H1.
  destruct (canon_operands m (inputs (iopn i))) as [m1|c|c|]; cbn [obind]; auto.
  pose proof (canon_operand_shape m1 (iout i)) as H2.
  destruct (canon_operand m1 (iout i)) as [m2|c|c|]; cbn [obind]; auto.
  specialize (IH m2). destruct (canonicalize m2 P) as [mf|c|c|]; cbn [obind]; auto.
  cbn [fst]. intros k Hk. unfold operand_indexes. cbn [flat_map]. fold (operand_indexes P).
  destruct (IH k Hk) as [H|H]; [left; apply in_or_app; now right|].
  destruct (H2 k H) as [->|H3]; [left; apply in_or_app; left; apply in_or_app; right; now left|].
  destruct (H1 k H3) as [H4|H4]; [|now right].
  left. apply in_or_app. left. apply in_or_app. left. exact H4.
Qed.

(* NameOperands: Panic site p.Chain[idx] for idx < 0 (the guard only tests idx >= len).  Every key of the
   operand table is an operand index of a program that Compile accepted, hence >= 0. *)
Lemma name_pass_shape f chain : forall tbl, (forall k, In k (map fst tbl) -> 0 <= k) ->
  match name_pass f chain tbl with
  | Ok t => map fst t = map fst tbl
  | Err _ => True
  | _ => False
  end.
Proof.
  induction tbl as [|[k nm] tbl IH]; intros Hk; cbn [name_pass]; [reflexivity|].
  assert (H0 : 0 <= k) by (apply Hk; now left).
  unfold name_one. cbn [fst snd]. destruct nm as [|c nm].
  - destruct (k <? 0) eqn:E; [apply Z.ltb_lt in E; lia|].
    destruct (nth_error chain (Z.to_nat k)) as [x|]; cbn [obind]; [|exact I].
    specialize (IH (fun j Hj => Hk j (or_intror Hj))).
    destruct (name_pass f chain tbl) as [t|cl|cl|]; cbn [obind]; auto. cbn [map fst]. now rewrite IH.
  - cbn [obind]. specialize (IH (fun j Hj => Hk j (or_intror Hj))).
    destruct (name_pass f chain tbl) as [t|cl|cl|]; cbn [obind]; auto. cbn [map fst]. now rewrite IH.
Qed.

(* pass.Eval on an instruction list: the chain, one longer than the unrolled program, and every operand
   index of the list within the program *)
Lemma eval_ir_shape P : pos_shifts P ->
  match eval_ir P with
  | Ok chain => forall x, In x (operand_indexes P) -> 0 <= x
  | Err _ => True
  | _ => False
  end.
Proof.
  intros Hp. unfold eval_ir, Naming.compile. pose proof (ncompile_answers P []) as Ha.
  destruct (Naming.compile_loop [] P) as [prog|c|c|] eqn:Ec; cbn [obind answers] in *; auto.
  destruct (evaluate_compiled prog) as (ch & -> & _); [eapply ncompile_wf; [exact Ec|apply wf_nil]|].
  destruct (compile_facts P [] prog Ec Hp) as (_ & _ & _ & H & _). intros x Hx. apply (H x Hx).
Qed.

(* builder.process: Panic site Statements[len-1] (no statement).  The last instruction is always committed. *)
Lemma b_operator_answers b o : answers (b_operator b o).
Proof. destruct o as [x y|x|x s]; cbn [b_operator answers]; auto. unfold b_add. repeat destruct (_ && _); try destruct (is_op _); exact I. Qed.

Lemma b_loop_n_shape rc : forall P b,
  match b_loop_n rc b P with
  | Ok b' => P <> [] -> b_stmts b' <> []
  | Err _ => True
  | _ => False
  end.
Proof.
  induction P as [|[i ident] P IH]; intros b; cbn [b_loop_n]; [tauto|].
  unfold b_step_n. pose proof (b_operator_answers b (iopn i)) as Ho.
  destruct (b_operator b (iopn i)) as [e|c|c|]; cbn [obind answers] in *; auto.
  destruct P as [|[j identj] P'].
  - cbn [hd_error option_map]. rewrite !andb_false_r. cbn [andb b_loop_n obind b_stmts].
    intros _ H. now apply app_eq_nil in H as [_ H].
  - match goal with |- context [if ?c then _ else _] => destruct c end; cbn [obind];
      match goal with |- context [b_loop_n rc ?b1 ?Q] => specialize (IH b1); destruct (b_loop_n rc b1 Q) end; auto;
      intros _; apply IH; discriminate.
Qed.

Lemma clear_last_ok : forall l, l <> [] -> exists r, clear_last l = Ok r.
Proof.
  induction l as [|s l IH]; intros H; [congruence|]. cbn [clear_last]. destruct l as [|s' l']; [eauto|].
  destruct IH as (r & ->); [discriminate|]. cbn [obind]. eauto.
Qed.

Lemma process_n_answers rc P : answers (process_n rc P).
Proof.
  unfold process_n. destruct P as [|ip P]; [exact I|].
  pose proof (b_loop_n_shape rc (ip :: P) b_init) as H.
  destruct (b_loop_n rc b_init (ip :: P)) as [b|c|c|]; cbn [obind answers] in *; auto.
  destruct (clear_last_ok (b_stmts b)) as (r & ->); [apply H; discriminate|exact I].
Qed.

(* acc.Build on the output of acc.Translate (operands with identifiers) *)
Lemma build_named_answers P : pos_shifts P -> answers (build_named P).
Proof.
  intros Hp. unfold build_named.
  pose proof (canonicalize_shape P []) as Hc.
  destruct (canonicalize [] P) as [mf|c|c|]; cbn [obind answers] in *; auto.
  pose proof (eval_ir_shape P Hp) as He.
  destruct (eval_ir P) as [chain|c|c|]; cbn [obind answers] in *; auto.
  assert (Hk : forall k, In k (map fst (fst mf)) -> 0 <= k).
  { intros k Hk. destruct (Hc k Hk) as [H|[]]. now apply He. }
  pose proof (name_pass_shape name_byte chain (fst mf) Hk) as H1.
  destruct (name_pass name_byte chain (fst mf)) as [t1|c|c|]; cbn [obind answers] in *; auto.
  rewrite <- H1 in Hk. pose proof (name_pass_shape name_xrun chain t1 Hk) as H2.
  destruct (name_pass name_xrun chain t1) as [t2|c|c|]; cbn [obind answers] in *; auto.
  apply process_n_answers.
Qed.

(* acc.Build on the output of acc.Decompile (Build.build): the same loop, identifiers from the table *)
Lemma b_loop_as_n tbl rc : forall P b,
  b_loop tbl rc b P = b_loop_n rc b (map (fun i => (i, ident_of tbl (oindex (iout i)))) P).
Proof.
  induction P as [|i P IH]; intros b; cbn [b_loop b_loop_n map]; [reflexivity|].
  replace (option_map fst (hd_error (map (fun i0 => (i0, ident_of tbl (oindex (iout i0)))) P))) with (hd_error P)
    by (destruct P; reflexivity).
  change (b_step tbl rc b i (hd_error P)) with (b_step_n rc b i (ident_of tbl (oindex (iout i))) (hd_error P)).
  destruct (b_step_n rc b i (ident_of tbl (oindex (iout i))) (hd_error P)); cbn [obind]; auto.
Qed.

Lemma process_answers tbl rc P : answers (process tbl rc P).
Proof.
  unfold process. destruct P as [|i P]; [exact I|]. rewrite b_loop_as_n.
  pose proof (b_loop_n_shape rc (map (fun i0 => (i0, ident_of tbl (oindex (iout i0)))) (i :: P)) b_init) as H.
  destruct (b_loop_n rc b_init _) as [b|c|c|]; cbn [obind answers] in *; auto.
  destruct (clear_last_ok (b_stmts b)) as (r & ->); [apply H; discriminate|exact I].
Qed.

Lemma build_answers P : pos_shifts P -> answers (build P).
Proof.
  intros Hp. unfold build, name_operands.
  pose proof (eval_ir_shape P Hp) as He.
  destruct (eval_ir P) as [chain|c|c|]; cbn [obind answers] in *; auto.
  assert (Hk : forall k, In k (map fst (operand_table P)) -> 0 <= k).
  { intros k Hk. unfold operand_table in Hk. rewrite map_map in Hk. cbn [fst] in Hk. rewrite map_id in Hk.
    apply He. eapply in_dedup; eauto. }
  pose proof (name_pass_shape name_byte chain (operand_table P) Hk) as H1.
  destruct (name_pass name_byte chain (operand_table P)) as [t1|c|c|]; cbn [obind answers] in *; auto.
  rewrite <- H1 in Hk. pose proof (name_pass_shape name_xrun chain t1 Hk) as H2.
  destruct (name_pass name_xrun chain t1) as [t2|c|c|]; cbn [obind answers] in *; auto.
  apply process_answers.
Qed.

Lemma fmt_tree_answers b s : answers (fmt_tree b s).
Proof.
  destruct b; [|exact I]. unfold fmt_tree. pose proof (translate_shape s) as H.
  destruct (translate s) as [P|c|c|]; cbn [obind answers] in *; auto.
  pose proof (build_named_answers P H) as Hb. destruct (build_named P); cbn [obind answers] in *; auto.
Qed.

(* ---------------------------------------------------------------- gen *)
(* ir.Program.Output() (index of the last instruction) is reached only behind the allocator's check for an
   instruction-less program: Alloc.allocate has no Panic left.  Eval after the allocator compiles the renamed
   instructions; Evaluate needs the well-formed program again. *)
Lemma validate_from_answers : forall p outs, answers (validate_from outs p).
Proof.
  induction p as [|i p IH]; intros outs; cbn [validate_from answers]; [exact I|].
  destruct (forallb _ _); [apply IH|exact I].
Qed.

Lemma canonicalize_answers P m : answers (canonicalize m P).
Proof. pose proof (canonicalize_shape P m) as H. destruct (canonicalize m P); cbn [answers]; auto. Qed.

Lemma allocate_answers cfg p : answers (allocate cfg p).
Proof.
  unfold allocate. destruct (last_instr p); [|exact I].
  pose proof (canonicalize_answers p []) as H. destruct (canonicalize [] p); cbn [obind answers] in *; auto.
Qed.

Lemma prepare_answers cfg s : answers (prepare cfg s).
Proof.
  unfold prepare. pose proof (translate_answers s) as Ht.
  destruct (translate s) as [p|c|c|]; cbn [obind answers] in *; auto.
  unfold validate_ir. pose proof (validate_from_answers p [0]) as Hv.
  destruct (validate_from [0] p) as [[]|c|c|]; cbn [obind answers] in *; auto.
  pose proof (allocate_answers cfg p) as Ha.
  destruct (allocate cfg p) as [qt|c|c|]; cbn [obind answers] in *; auto.
  unfold Translate.compile. pose proof (tcompile_answers (fst qt) []) as Hc.
  destruct (Translate.compile_loop [] (fst qt)) as [ops|c|c|] eqn:Ec; cbn [obind answers] in *; auto.
  destruct (evaluate_compiled ops) as (ch & -> & _); [eapply tcompile_wf; [exact Ec|apply wf_nil]|]. exact I.
Qed.

(* the ops template: `index $.Chain (inc $n)` past the end is a template error, not a panic *)
Lemma render_ops_answers c : forall p n, answers (render_ops_from n c p).
Proof.
  induction p as [|o p IH]; intros n; cbn [render_ops_from answers]; [exact I|].
  destruct (nth_error c (S n)); [|exact I]. specialize (IH (S n)).
  destruct (render_ops_from (S n) c p); cbn [obind answers] in *; auto.
Qed.

Lemma render_answers typ d : answers (render typ d).
Proof.
  unfold render. repeat (destruct (str_eqb typ _); [try exact I|]); try exact I. apply render_ops_answers.
Qed.

Lemma gen_tree_answers typ s : answers (gen_tree typ s).
Proof.
  unfold gen_tree. pose proof (prepare_answers default_cfg s) as H.
  destruct (prepare default_cfg s) as [d|c|c|]; cbn [obind answers] in *; auto. apply render_answers.
Qed.

(* ---------------------------------------------------------------- the library entry points, for every byte string *)
Lemma from_text {A} (f : script -> outcome A) s : (forall c, answers (f c)) -> answers (obind (parse s) f).
Proof. intros H. apply answers_obind; [apply parse_answers|auto]. Qed.

Theorem no_panic_parse s : answers (lib_parse s).
Proof. apply parse_answers. Qed.
Theorem no_panic_translate s : answers (lib_translate s).
Proof. apply from_text, translate_answers. Qed.
Theorem no_panic_load s : answers (lib_load s).
Proof. apply from_text, load_tree_answers. Qed.
Lemma translate_build_answers c : answers (obind (translate c) build_named).
Proof.
  pose proof (translate_shape c) as H. destruct (translate c) as [P|cl|cl|]; cbn [obind answers] in *; auto.
  now apply build_named_answers.
Qed.
Theorem no_panic_build s : answers (lib_build s).
Proof. unfold lib_build. apply from_text, translate_build_answers. Qed.
Theorem no_panic_print s : answers (lib_print s).
Proof. unfold lib_print, fmt_out. apply from_text. intros c. exact I. Qed.
Theorem no_panic_prepare s : answers (lib_prepare s).
Proof. unfold lib_prepare. apply from_text. intros c. apply prepare_answers. Qed.
Theorem no_panic_generate typ s : answers (lib_generate typ s).
Proof. unfold lib_generate, gen_out. apply from_text. intros c. apply gen_tree_answers. Qed.
Theorem no_panic_calc s : answers (lib_calc s).
Proof. apply answers_ok_or_err. apply eval_ok_or_err. Qed.

(* ---------------------------------------------------------------- search *)
(* what exec.Execute returns for one algorithm: an error, or the program of a valid chain (C01) *)
Definition result_ok (r : outcome (list op)) : Prop :=
  match r with Ok p => wf_program p | Err _ => True | _ => False end.
Definition ens_ok (ens : Z -> list (outcome (list op))) : Prop :=
  forall n, 1 <= n -> ens n <> [] /\ Forall result_ok (ens n).

(* rs[best]: best is only ever assigned a loop index *)
Lemma pick_best_shape dbl add : forall rs i best mc, Forall result_ok rs -> (best < i + length rs)%nat ->
  match pick_best dbl add i rs best mc with
  | Ok b => (b < i + length rs)%nat /\ forall r, In r rs -> exists p, r = Ok p
  | Err _ => True
  | _ => False
  end.
Proof.
  induction rs as [|r t IH]; intros i best mc Hf Hb; cbn [pick_best].
  - split; [exact Hb|intros r []].
  - inversion Hf as [|? ? Hr Ht]; subst. destruct r as [p|c|c|]; cbn [obind result_ok] in *; try tauto.
    destruct (count p) as [doubles adds]. cbn [length] in *.
    destruct (flt _ mc).
    + specialize (IH (S i) i (fadd (fmul_count dbl doubles) (fmul_count add adds)) Ht ltac:(lia)).
      destruct (pick_best dbl add (S i) t i _) as [b|c|c|]; auto. destruct IH as [H1 H2].
      split; [lia|]. intros r [<-|Hr']; eauto.
    + specialize (IH (S i) best mc Ht ltac:(lia)).
      destruct (pick_best dbl add (S i) t best mc) as [b|c|c|]; auto. destruct IH as [H1 H2].
      split; [lia|]. intros r [<-|Hr']; eauto.
Qed.

(* make(chan token, limit) and the first send: limit >= 1 here, because -p >= 1 and the ensemble is not empty *)
Lemma par_execute_ok {R} limit (rs : list R) : 1 <= limit -> par_execute limit rs = Ok rs.
Proof.
  intros H. unfold par_execute. destruct (limit <? 0) eqn:E1; [apply Z.ltb_lt in E1; lia|].
  destruct (limit =? 0) eqn:E2; [apply Z.eqb_eq in E2; lia|]. reflexivity.
Qed.

Lemma decompile_build_answers p : wf_program p ->
  exists q, decompile p = Ok q /\ answers (build q).
Proof.
  intros Hw. destruct (decompile_expand p Hw) as (q & Eq & _). exists q. split; [exact Eq|].
  apply build_answers. destruct (decompile_inv _ _ Eq) as (nr & ->). apply pos_shifts_dec_loop.
Qed.

(* the ensemble is consulted only at the value of the expression *)
Theorem search_exits_at ens expr p add dbl :
  (forall n, Calc.eval expr = Ok n -> 1 <= n -> ens n <> [] /\ Forall result_ok (ens n)) ->
  exists e, search ens expr p add dbl = Ok e.
Proof.
  intros Hens. unfold search. destruct (p <? 1) eqn:Ep; [eauto|]. apply Z.ltb_ge in Ep.
  destruct (eval_ok_or_err expr) as [[n En]|[c En]]; rewrite En; cbn [or_fail]; [|eauto].
  destruct (n <? 1) eqn:En1; [eauto|]. apply Z.ltb_ge in En1.
  destruct (Hens n En En1) as [Hne Hf]. cbv zeta.
  rewrite par_execute_ok by (destruct (ens n); [congruence|cbn [length]; lia]). cbn [obind].
  pose proof (pick_best_shape dbl add (ens n) 0 0 (FInf false) Hf) as Hp.
  destruct (pick_best dbl add 0 (ens n) 0 (FInf false)) as [best|c|c|]; cbn [or_fail];
    [|eauto|destruct Hp|destruct Hp]; try (destruct (ens n); [congruence|cbn [length]; lia]).
  destruct Hp as [Hb Hall]; [destruct (ens n); [congruence|cbn [length]; lia]|].
  destruct (nth_error (ens n) best) as [r|] eqn:Enth; [|apply nth_error_None in Enth; lia].
  pose proof (nth_error_In _ _ Enth) as Hin. destruct (Hall r Hin) as (prog & ->). cbn [or_fail].
  assert (Hw : wf_program prog) by (rewrite Forall_forall in Hf; exact (Hf _ Hin)).
  destruct (decompile_build_answers prog Hw) as (q & -> & Hb'). cbn [or_fail].
  destruct (build q); cbn [or_fail answers] in *; eauto; tauto.
Qed.

Theorem search_exits ens expr p add dbl : ens_ok ens -> exists e, search ens expr p add dbl = Ok e.
Proof. intros Hens. apply search_exits_at. intros n _ Hn. exact (Hens n Hn). Qed.

(* ---------------------------------------------------------------- the command line *)
Lemma or_fail_exits {A} (o : outcome A) : answers o -> exists e, or_fail o (fun _ => Ok Exit0) = Ok e.
Proof. destruct o; cbn [answers or_fail]; eauto; tauto. Qed.

Theorem cli_no_panic ens c : ens_ok ens -> exists e, cli ens c = Ok e.
Proof.
  intros Hens. destruct c as [expr p add dbl|src|b src|typ src]; cbn [cli].
  - now apply search_exits.
  - apply or_fail_exits. unfold eval_out. apply from_text, eval_tree_answers.
  - apply or_fail_exits. unfold fmt_out. apply from_text. intros t. apply fmt_tree_answers.
  - apply or_fail_exits. unfold gen_out. apply from_text. intros t. apply gen_tree_answers.
Qed.

Theorem invocation_no_panic ens i : ens_ok ens -> exists e, run_invocation ens i = Ok e.
Proof. intros H. destruct i; cbn [run_invocation]; eauto. now apply cli_no_panic. Qed.

(* exit classes of search, where the property text names them *)
Theorem search_concurrency_usage ens expr p add dbl : p < 1 -> search ens expr p add dbl = Ok Exit2.
Proof. intros H. unfold search. destruct (p <? 1) eqn:E; [reflexivity|]. apply Z.ltb_ge in E. lia. Qed.

Theorem search_bad_expression ens expr p add dbl c : 1 <= p -> Calc.eval expr = Err c ->
  search ens expr p add dbl = Ok Exit1.
Proof.
  intros H E. unfold search. destruct (p <? 1) eqn:Ep; [apply Z.ltb_lt in Ep; lia|]. now rewrite E.
Qed.

Theorem search_nonpositive_target ens expr p add dbl n : 1 <= p -> Calc.eval expr = Ok n -> n < 1 ->
  search ens expr p add dbl = Ok Exit1.
Proof.
  intros H E Hn. unfold search. destruct (p <? 1) eqn:Ep; [apply Z.ltb_lt in Ep; lia|]. rewrite E. cbn [or_fail].
  destruct (n <? 1) eqn:E1; [reflexivity|]. apply Z.ltb_ge in E1. lia.
Qed.

(* a positive target on which every algorithm returns the program of a chain without repeated elements
   (what C01 establishes for the ensemble) ends in exit status 0 *)
Definition result_good (r : outcome (list op)) : Prop :=
  exists p c, r = Ok p /\ wf_program p /\ evaluate p = Ok c /\ NoDup c /\ Z.of_nat (length p) < 2 ^ 63.

Lemma pick_best_good dbl add : forall rs i best mc, Forall result_good rs -> (best < i + length rs)%nat ->
  exists b, pick_best dbl add i rs best mc = Ok b /\ (b < i + length rs)%nat.
Proof.
  induction rs as [|r t IH]; intros i best mc Hf Hb; cbn [pick_best]; [eauto|].
  inversion Hf as [|? ? Hr Ht]; subst. destruct Hr as (p & c & -> & _). cbn [obind length] in *.
  destruct (count p) as [doubles adds]. destruct (flt _ mc).
  - destruct (IH (S i) i (fadd (fmul_count dbl doubles) (fmul_count add adds)) Ht ltac:(lia)) as (b & -> & H). exists b. split; [reflexivity|lia].
  - destruct (IH (S i) best mc Ht ltac:(lia)) as (b & -> & H). exists b. split; [reflexivity|lia].
Qed.

Theorem search_positive_target ens expr p add dbl n : 1 <= p -> Calc.eval expr = Ok n -> 1 <= n ->
  ens n <> [] -> Forall result_good (ens n) -> search ens expr p add dbl = Ok Exit0.
Proof.
  intros H E Hn Hne Hf. unfold search. destruct (p <? 1) eqn:Ep; [apply Z.ltb_lt in Ep; lia|]. rewrite E. cbn [or_fail].
  destruct (n <? 1) eqn:E1; [apply Z.ltb_lt in E1; lia|]. cbv zeta.
  assert (Hlen : (0 < length (ens n))%nat) by (destruct (ens n); [congruence|cbn [length]; lia]).
  rewrite par_execute_ok by lia. cbn [obind].
  destruct (pick_best_good dbl add (ens n) 0 0 (FInf false) Hf ltac:(lia)) as (best & -> & Hb). cbn [or_fail].
  destruct (nth_error (ens n) best) as [r|] eqn:Enth; [|apply nth_error_None in Enth; lia].
  pose proof (nth_error_In _ _ Enth) as Hin. rewrite Forall_forall in Hf.
  destruct (Hf r Hin) as (prog & c & -> & Hw & Hev & Hnd & Hl). cbn [or_fail].
  destruct (build_translate prog c Hw Hev Hnd Hl) as (t & Eb & _). unfold build_program in Eb.
  destruct (decompile prog) as [q|cl|cl|]; cbn [obind] in Eb; try discriminate. cbn [or_fail]. rewrite Eb. reflexivity.
Qed.

(* ---------------------------------------------------------------- deadlock freedom: par_execute against the
   transition system of C12 (model/Par.v), all schedules *)
Lemma map_nth_seq_gen {A} (d : A) (l : list A) : map (fun i => nth i l d) (seq 0 (length l)) = l.
Proof.
  induction l as [|a l IH]; [reflexivity|]. cbn [length seq map nth]. f_equal.
  rewrite <- seq_shift, map_map. exact IH.
Qed.

Section Deadlock.
Variable R : Type.
Variable results : list R.       (* results[i] = exec.Execute(n, as[i]) *)
Variable d : R.
Let k := length results.
Let res (i : nat) : R := nth i results d.

(* limit >= 1: Execute never blocks for ever (progress), stops after at most 5k + limit + 1 steps
   (termination), and what it returns is the list that par_execute returns, under every schedule *)
Theorem par_execute_all_schedules (limit : nat) : (1 <= limit)%nat ->
  par_execute (Z.of_nat limit) results = Ok results /\
  (forall s, ParProofs.reachable R k limit res s -> Par.pc s <> Par.PReturned ->
     exists l s', Par.step_ok R k limit res s l = Some s') /\
  (forall ls s, ParProofs.path R k limit res (Par.init R k) ls s -> (length ls <= 5 * k + limit + 1)%nat) /\
  (forall s, ParProofs.reachable R k limit res s -> Par.pc s = Par.PReturned -> Par.rs s = map Some results).
Proof using.
  intros Hl. destruct (ParProofs.all_schedules R k limit res Hl) as (_ & Hret & Hprog & Hterm).
  split; [apply par_execute_ok; lia|]. split; [exact Hprog|]. split; [exact Hterm|].
  intros s Hr Hp. destruct (Hret s Hr Hp) as [_ ->].
  transitivity (map Some (map res (seq 0 k))); [now rewrite map_map|].
  f_equal. exact (map_nth_seq_gen d results).
Qed.

(* limit = 0 with at least one algorithm: no step is possible from the initial state *)
Theorem par_execute_limit0 : results <> [] ->
  par_execute 0 results = Panic ($"deadlock") /\ forall l, Par.step_ok R k 0 res (Par.init R k) l = None.
Proof using.
  intros Hne. split.
  - unfold par_execute. destruct results; [congruence|reflexivity].
  - intros l. apply ParProofs.limit0_stuck; [reflexivity|]. subst k. destruct results; [congruence|cbn [length]; lia].
Qed.

(* the limit that search passes (min of -p and the number of algorithms) keeps the completion barrier
   proportional to the number of algorithms, whatever -p is *)
Theorem search_barrier_bounded (p : Z) : 1 <= p -> (1 <= k)%nat ->
  let limit := Z.to_nat (Z.min p (Z.of_nat k)) in
  (1 <= limit)%nat /\
  forall ls s, ParProofs.path R k limit res (Par.init R k) ls s -> (length ls <= 6 * k + 1)%nat.
Proof using.
  intros Hp Hk limit. assert (Hlim : (1 <= limit <= k)%nat) by (subst limit; lia). split; [lia|].
  intros ls s Hpath. pose proof (ParProofs.termination R k limit res ls s Hpath). lia.
Qed.
End Deadlock.
