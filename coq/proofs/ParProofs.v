(* Proofs about the transition system of model/Par.v. *)
From Coq Require Import List Lia Bool Arith.
From AV Require Import model.Par.
Import ListNotations.

Lemma wst_eqb_eq a b : wst_eqb a b = true -> a = b.
Proof. destruct a, b; simpl; congruence. Qed.
