(* Proofs about the transition system of model/Par.v: all interleavings. *)
From Coq Require Import List Lia Bool Arith.
From AV Require Import model.Par.
Import ListNotations.

(* ---------- lists ---------- *)
Lemma update_length {A} l (v : A) xs : length (update l v xs) = length xs.
Proof. revert l; induction xs as [|x t IH]; intros [|l]; simpl; auto. Qed.
Lemma nth_update_eq {A} l (v d : A) xs : l < length xs -> nth l (update l v xs) d = v.
Proof. revert l; induction xs as [|x t IH]; intros [|l] H; simpl in *; try lia; auto. apply IH; lia. Qed.
Lemma nth_update_neq {A} l l' (v d : A) xs : l <> l' -> nth l' (update l v xs) d = nth l' xs d.
Proof. revert l l'; induction xs as [|x t IH]; intros [|l] [|l'] H; simpl; auto; try lia. Qed.
Lemma nth_repeat_lt {A} (a d : A) n i : i < n -> nth i (repeat a n) d = a.
Proof. revert i; induction n; intros [|i] H; simpl; try lia; auto. apply IHn; lia. Qed.
Lemma nth_ext_len {A} (d : A) (l l' : list A) :
  length l = length l' -> (forall i, i < length l -> nth i l d = nth i l' d) -> l = l'.
Proof.
  revert l'; induction l as [|x t IH]; intros [|y t'] Hl H; simpl in *; try lia; auto.
  f_equal; [apply (H 0); lia|]. apply IH; [lia|]. intros i Hi. apply (H (S i)). lia.
Qed.

Lemma count_update f i w l :
  i < length l -> count f (update i w l) + f (nth i l NotYet) = count f l + f w.
Proof.
  revert i; induction l as [|x t IH]; intros [|i] H; simpl in *; try lia.
  specialize (IH i ltac:(lia)). lia.
Qed.
Lemma count_repeat f n : count f (repeat NotYet n) = n * f NotYet.
Proof. induction n; simpl; auto. Qed.
Lemma count_le f g l : (forall w, f w <= g w) -> count f l <= count g l.
Proof. intros H; induction l as [|x t IH]; simpl; auto. specialize (H x). lia. Qed.
Lemma count_zero f l : count f l = 0 -> forall i, i < length l -> f (nth i l NotYet) = 0.
Proof.
  induction l as [|x t IH]; intros H [|i] Hi; simpl in *; try lia. apply IH; lia.
Qed.
Lemma count_pos f l : count f l > 0 -> exists i, i < length l /\ f (nth i l NotYet) > 0.
Proof.
  induction l as [|x t IH]; simpl; intros H; [lia|].
  destruct (f x) eqn:E.
  - destruct (IH ltac:(lia)) as (i & Hi & Ei). exists (S i). split; [lia|exact Ei].
  - exists 0. split; [lia|]. lia.
Qed.

Lemma wst_eqb_eq a b : wst_eqb a b = true -> a = b.
Proof. destruct a, b; simpl; congruence. Qed.
Lemma wst_eqb_refl a : wst_eqb a a = true.
Proof. destruct a; reflexivity. Qed.

Definition hasres (w : wst) : bool := match w with Stored | Logged | Released => true | _ => false end.

Section Par.
Variable R : Type.
Variable k limit : nat.
Variable res : nat -> R.
Notation st := (st R).
Notation step_ok := (step_ok R k limit res).
Notation init := (init R k).
Notation mk_spawn := (mk_spawn k).
Notation measure := (measure R limit).

Inductive reachable : st -> Prop :=
| r_init : reachable init
| r_step s l s' : reachable s -> step_ok s l = Some s' -> reachable s'.

Inductive path : st -> list label -> st -> Prop :=
| p_nil s : path s [] s
| p_cons s l s' ls s'' : step_ok s l = Some s' -> path s' ls s'' -> path s (l :: ls) s''.

Lemma path_app s ls s' ls' s'' : path s ls s' -> path s' ls' s'' -> path s (ls ++ ls') s''.
Proof. induction 1; simpl; intros; [assumption|]. econstructor; eauto. Qed.
Lemma path_reachable s ls s' : reachable s -> path s ls s' -> reachable s'.
Proof. intros Hr Hp; induction Hp; [assumption|]. apply IHHp. econstructor; eauto. Qed.
Lemma reachable_path s : reachable s -> exists ls, path init ls s.
Proof.
  induction 1 as [|s l s' Hr (ls & Hp) Hs]; [exists []; constructor|].
  exists (ls ++ [l]). eapply path_app; [exact Hp|]. econstructor; [exact Hs|constructor].
Qed.

(* ---------- the invariant ---------- *)
Definition spawned_pc (p : pcs) : nat := match p with PSpawn i => i | _ => k end.
Definition waitc_pc (p : pcs) : nat := match p with PWait j => j | PReturned => limit | PSpawn _ => 0 end.
Definition pc_ok (p : pcs) : Prop := match p with PSpawn i => i < k | PWait j => j <= limit | PReturned => True end.

Definition Inv (s : st) : Prop :=
  length (ws s) = k /\ length (rs s) = k /\
  sem s = count isact (ws s) + waitc_pc (pc s) /\ sem s <= limit /\
  pc_ok (pc s) /\
  (forall i, i < k -> (wat s i = NotYet <-> spawned_pc (pc s) <= i)) /\
  (forall i, i < k -> nth i (rs s) None = if hasres (wat s i) then Some (res i) else None).

Lemma mk_spawn_facts i : i <= k ->
  spawned_pc (mk_spawn i) = i /\ waitc_pc (mk_spawn i) = 0 /\ pc_ok (mk_spawn i).
Proof using.
  intros Hi. unfold Par.mk_spawn. destruct (i <? k) eqn:E.
  - apply Nat.ltb_lt in E. simpl. repeat split; lia.
  - apply Nat.ltb_ge in E. simpl. repeat split; lia.
Qed.

Lemma inv_init : Inv init.
Proof using.
  destruct (mk_spawn_facts 0 ltac:(lia)) as (Hs & Hw & Hp).
  unfold Inv, Par.init, wat; simpl. rewrite !repeat_length, count_repeat, Hs, Hw. simpl.
  repeat split; try lia; try assumption.
  - intros _. rewrite nth_repeat_lt by assumption. reflexivity.
  - intros i Hi. rewrite !nth_repeat_lt by assumption. reflexivity.
Qed.

Lemma wat_lt (s : st) i : wat s i <> NotYet -> i < length (ws s).
Proof using.
  intros H. destruct (Nat.lt_ge_cases i (length (ws s))); [assumption|].
  unfold wat in H. rewrite nth_overflow in H by lia. congruence.
Qed.

(* a worker moves from its current state (not NotYet) to b (not NotYet) *)
Lemma inv_worker s i b sem' rs' :
  Inv s -> wat s i <> NotYet -> b <> NotYet ->
  sem' + isact (wat s i) = sem s + isact b -> sem' <= sem s ->
  length rs' = k ->
  (forall j, j < k -> nth j rs' None = if hasres (if Nat.eqb j i then b else wat s j) then Some (res j) else None) ->
  Inv {| pc := pc s; sem := sem'; ws := update i b (ws s); rs := rs' |}.
Proof using.
  intros (Hlw & Hlr & Hsem & Hle & Hpc & Hny & Hrs) Ha Hb Hs' Hle' Hlr' Hrs'.
  pose proof (wat_lt s i Ha) as Hi.
  pose proof (count_update isact i b (ws s) Hi) as Hc. fold (wat s i) in Hc.
  unfold Inv, wat; simpl. rewrite update_length.
  split; [assumption|]. split; [assumption|]. split; [lia|]. split; [lia|]. split; [assumption|]. split.
  - intros j Hj. destruct (Nat.eq_dec i j) as [<-|Hne].
    + rewrite nth_update_eq by lia. split; [congruence|]. intros Hsp. apply Hny in Hsp; [|lia]. congruence.
    + rewrite nth_update_neq by assumption. apply Hny; assumption.
  - intros j Hj. rewrite (Hrs' j Hj). destruct (Nat.eqb_spec j i) as [->|Hne].
    + rewrite nth_update_eq by lia. reflexivity.
    + rewrite nth_update_neq by congruence. reflexivity.
Qed.

Lemma inv_step s l s' : Inv s -> step_ok s l = Some s' -> Inv s'.
Proof using.
  intros HI Hstep. pose proof HI as (Hlw & Hlr & Hsem & Hle & Hpc & Hny & Hrs).
  destruct l as [|i|i|i|i| |]; cbn [Par.step_ok] in Hstep.
  - (* spawn *)
    destruct (pc s) as [i|j|] eqn:Epc; try discriminate.
    destruct (sem s <? limit) eqn:E; [|discriminate]. injection Hstep as <-.
    apply Nat.ltb_lt in E. simpl in Hpc, Hny, Hsem.
    destruct (mk_spawn_facts (S i) ltac:(lia)) as (Hs & Hw & Hp).
    assert (Hny0 : wat s i = NotYet) by (apply Hny; lia).
    pose proof (count_update isact i Spawned (ws s) ltac:(lia)) as Ha.
    fold (wat s i) in Ha. rewrite Hny0 in Ha. simpl in Ha.
    unfold Inv, wat; simpl. rewrite update_length, Hs, Hw.
    split; [assumption|]. split; [assumption|]. split; [lia|]. split; [lia|]. split; [assumption|]. split.
    + intros j Hj. destruct (Nat.eq_dec i j) as [<-|Hne].
      * rewrite nth_update_eq by lia. split; [discriminate|lia].
      * rewrite nth_update_neq by assumption. fold (wat s j). rewrite (Hny j Hj). lia.
    + intros j Hj. destruct (Nat.eq_dec i j) as [<-|Hne].
      * rewrite nth_update_eq by lia. simpl. rewrite Hrs by lia. now rewrite Hny0.
      * rewrite nth_update_neq by assumption. apply Hrs; assumption.
  - (* start *)
    destruct (wst_eqb (wat s i) Spawned) eqn:E; [|discriminate]. injection Hstep as <-.
    apply wst_eqb_eq in E. unfold setw.
    apply inv_worker; try assumption; try (rewrite E; simpl; (discriminate || lia)); try discriminate; try lia.
    intros j Hj. rewrite Hrs by assumption. destruct (Nat.eqb_spec j i) as [->|Hne]; [now rewrite E|reflexivity].
  - (* store *)
    destruct (wst_eqb (wat s i) Started) eqn:E; [|discriminate]. injection Hstep as <-.
    apply wst_eqb_eq in E.
    assert (Hi : i < length (ws s)) by (apply wat_lt; rewrite E; discriminate).
    apply inv_worker; try assumption; try (rewrite E; simpl; (discriminate || lia)); try discriminate; try lia.
    + rewrite update_length. assumption.
    + intros j Hj. destruct (Nat.eqb_spec j i) as [->|Hne].
      * rewrite nth_update_eq by lia. reflexivity.
      * rewrite nth_update_neq by congruence. apply Hrs; assumption.
  - (* done *)
    destruct (wst_eqb (wat s i) Stored) eqn:E; [|discriminate]. injection Hstep as <-.
    apply wst_eqb_eq in E. unfold setw.
    apply inv_worker; try assumption; try (rewrite E; simpl; (discriminate || lia)); try discriminate; try lia.
    intros j Hj. rewrite Hrs by assumption. destruct (Nat.eqb_spec j i) as [->|Hne]; [now rewrite E|reflexivity].
  - (* release *)
    destruct (wst_eqb (wat s i) Logged && (0 <? sem s)) eqn:E; [|discriminate]. injection Hstep as <-.
    apply andb_true_iff in E as [E E0]. apply wst_eqb_eq in E. apply Nat.ltb_lt in E0.
    apply inv_worker; try assumption; try (rewrite E; simpl; (discriminate || lia)); try discriminate; try lia.
    intros j Hj. rewrite Hrs by assumption. destruct (Nat.eqb_spec j i) as [->|Hne]; [now rewrite E|reflexivity].
  - (* wait *)
    destruct (pc s) as [i|j|] eqn:Epc; try discriminate.
    destruct ((j <? limit) && (sem s <? limit)) eqn:E; [|discriminate]. injection Hstep as <-.
    apply andb_true_iff in E as [E1 E2]. apply Nat.ltb_lt in E1, E2. simpl in Hpc, Hny, Hsem.
    unfold Inv, wat; simpl.
    split; [assumption|]. split; [assumption|]. split; [lia|]. split; [lia|]. split; [lia|]. split; assumption.
  - (* return *)
    destruct (pc s) as [i|j|] eqn:Epc; try discriminate.
    destruct (j <? limit) eqn:E; [discriminate|]. injection Hstep as <-.
    apply Nat.ltb_ge in E. simpl in Hpc, Hny, Hsem.
    unfold Inv, wat; simpl.
    split; [assumption|]. split; [assumption|]. split; [lia|]. split; [lia|]. split; [exact I|]. split; assumption.
Qed.

Theorem reachable_inv s : reachable s -> Inv s.
Proof using. induction 1; [apply inv_init|eapply inv_step; eauto]. Qed.

(* ---------- semaphore accounting ---------- *)
Theorem inv_sem s : reachable s ->
  sem s = count isact (ws s) + waitc_pc (pc s) /\ sem s <= limit.
Proof using. intros Hr. destruct (reachable_inv s Hr) as (_ & _ & Hsem & Hle & _). split; assumption. Qed.

(* never more than `limit` workers hold a token, hence never more than `limit` between their
   start and done lines, under every interleaving *)
Theorem at_most_limit_running s : reachable s ->
  count isact (ws s) <= limit /\ running s <= limit.
Proof using.
  intros Hr. destruct (inv_sem s Hr) as [Hsem Hle].
  assert (count isrun (ws s) <= count isact (ws s)) by (apply count_le; intros []; simpl; lia).
  unfold running. lia.
Qed.

(* slot i is written by worker i only, with the result of algorithm i *)
Theorem inv_slot s : reachable s ->
  length (rs s) = k /\
  forall i, i < k -> nth i (rs s) None = if hasres (wat s i) then Some (res i) else None.
Proof using. intros Hr. destruct (reachable_inv s Hr) as (_ & Hlr & _ & _ & _ & _ & Hrs). split; assumption. Qed.

Definition sequential : list (option R) := map (fun i => Some (res i)) (seq 0 k).

(* when Execute returns every worker has released its token and the returned slice is the
   list of sequential results, position by position *)
Theorem returned_complete s : reachable s -> pc s = PReturned ->
  (forall i, i < k -> wat s i = Released) /\ rs s = sequential.
Proof using.
  intros Hr Hret. destruct (reachable_inv s Hr) as (Hlw & Hlr & Hsem & Hle & Hpc & Hny & Hrs).
  rewrite Hret in *. simpl in *.
  assert (Hact : count isact (ws s) = 0) by lia.
  assert (Hrel : forall i, i < k -> wat s i = Released).
  { intros i Hi. pose proof (count_zero isact _ Hact i ltac:(lia)) as Hi0. fold (wat s i) in Hi0.
    assert (Hnn : wat s i <> NotYet) by (intros E; apply Hny in E; [lia|assumption]).
    destruct (wat s i); simpl in Hi0; congruence. }
  split; [exact Hrel|].
  apply (nth_ext_len None); unfold sequential; [rewrite map_length, seq_length; assumption|].
  intros i Hi. rewrite Hrs, Hrel by lia. simpl.
  rewrite (nth_indep _ None ((fun i => Some (res i)) 0)) by (rewrite map_length, seq_length; lia).
  rewrite (map_nth (fun i => Some (res i))), seq_nth by lia. reflexivity.
Qed.

(* a Returned state is final *)
Theorem returned_final s : reachable s -> pc s = PReturned -> forall l, step_ok s l = None.
Proof using.
  intros Hr Hret l. destruct (returned_complete s Hr Hret) as [Hrel _].
  destruct (reachable_inv s Hr) as (Hlw & _).
  assert (Hw : forall i a, a <> Released -> a <> NotYet -> wst_eqb (wat s i) a = false).
  { intros i a Ha Hb. destruct (wst_eqb (wat s i) a) eqn:E; [|reflexivity]. apply wst_eqb_eq in E.
    destruct (Nat.lt_ge_cases i k) as [Hi|Hi]; [rewrite Hrel in E by assumption; congruence|].
    unfold wat in E. rewrite nth_overflow in E by lia. congruence. }
  destruct l; cbn [Par.step_ok]; rewrite ?Hret; try reflexivity.
  all: rewrite Hw by discriminate; reflexivity.
Qed.

(* ---------- progress: no deadlock for limit >= 1 ---------- *)
Theorem progress s : 1 <= limit -> reachable s -> pc s <> PReturned -> exists l s', step_ok s l = Some s'.
Proof using.
  intros Hlim Hr Hnr. destruct (reachable_inv s Hr) as (Hlw & Hlr & Hsem & Hle & Hpc & Hny & Hrs).
  destruct (Nat.eq_dec (count isact (ws s)) 0) as [Hz|Hnz].
  - destruct (pc s) as [i|j|] eqn:Epc; [| |congruence]; simpl in *.
    + exists main_acquire_spawn. cbn [Par.step_ok]. rewrite Epc.
      replace (sem s <? limit) with true by (symmetry; apply Nat.ltb_lt; lia). eauto.
    + destruct (Nat.eq_dec j limit) as [Hw|Hw].
      * exists main_return. cbn [Par.step_ok]. rewrite Epc.
        replace (j <? limit) with false by (symmetry; apply Nat.ltb_ge; lia). eauto.
      * exists main_wait_acquire. cbn [Par.step_ok]. rewrite Epc.
        replace (j <? limit) with true by (symmetry; apply Nat.ltb_lt; lia).
        replace (sem s <? limit) with true by (symmetry; apply Nat.ltb_lt; lia). simpl. eauto.
  - destruct (count_pos isact (ws s) ltac:(lia)) as (i & Hi & Ei). fold (wat s i) in Ei.
    destruct (wat s i) eqn:E; simpl in Ei; try lia.
    + exists (w_logstart i). cbn [Par.step_ok]. rewrite E. simpl. eauto.
    + exists (w_store i). cbn [Par.step_ok]. rewrite E. simpl. eauto.
    + exists (w_logdone i). cbn [Par.step_ok]. rewrite E. simpl. eauto.
    + exists (w_release i). cbn [Par.step_ok]. rewrite E. simpl.
      replace (0 <? sem s) with true by (symmetry; apply Nat.ltb_lt; lia). eauto.
Qed.

(* the -p 0 hang: with limit 0 and at least one algorithm the initial state is stuck *)
Theorem limit0_stuck l : limit = 0 -> 1 <= k -> step_ok init l = None.
Proof using.
  intros Hl Hk.
  assert (Hw : forall i a, a <> NotYet -> wst_eqb (wat init i) a = false).
  { intros i a Ha. destruct (wst_eqb (wat init i) a) eqn:E; [|reflexivity]. apply wst_eqb_eq in E.
    unfold wat, Par.init in E; simpl in E.
    destruct (Nat.lt_ge_cases i k); [rewrite nth_repeat_lt in E by assumption|rewrite nth_overflow in E by (rewrite repeat_length; lia)]; congruence. }
  destruct l; cbn [Par.step_ok]; try (rewrite Hw by discriminate; reflexivity).
  - unfold Par.init; simpl. unfold Par.mk_spawn. replace (0 <? k) with true by (symmetry; apply Nat.ltb_lt; lia).
    rewrite Hl. reflexivity.
  - unfold Par.init; simpl. unfold Par.mk_spawn. replace (0 <? k) with true by (symmetry; apply Nat.ltb_lt; lia). reflexivity.
  - unfold Par.init; simpl. unfold Par.mk_spawn. replace (0 <? k) with true by (symmetry; apply Nat.ltb_lt; lia). reflexivity.
Qed.

(* ---------- termination: every step decreases the measure by exactly one ---------- *)
Lemma rank_cnt_update (s : st) i a b :
  wat s i = a -> i < length (ws s) -> rank b = S (rank a) -> rank b <= 5 ->
  S (count togo (update i b (ws s))) = count togo (ws s).
Proof using.
  intros Ha Hi Hr Hb. pose proof (count_update togo i b (ws s) Hi) as Hc.
  fold (wat s i) in Hc. rewrite Ha in Hc. unfold togo at 2 4 in Hc. lia.
Qed.

Lemma mk_spawn_measure i : pc_measure limit (mk_spawn i) = S limit.
Proof using. unfold Par.mk_spawn. destruct (i <? k); simpl; lia. Qed.

Theorem measure_step s l s' : reachable s -> step_ok s l = Some s' -> S (measure s') = measure s.
Proof using.
  intros Hr Hstep. destruct (reachable_inv s Hr) as (Hlw & Hlr & Hsem & Hle & Hpc & Hny & Hrs).
  unfold Par.measure.
  destruct l as [|i|i|i|i| |]; cbn [Par.step_ok] in Hstep.
  - destruct (pc s) as [i|j|] eqn:Epc; try discriminate.
    destruct (sem s <? limit) eqn:E; [|discriminate]. injection Hstep as <-. simpl in *.
    rewrite mk_spawn_measure.
    assert (Hny0 : wat s i = NotYet) by (apply Hny; lia).
    pose proof (rank_cnt_update s i NotYet Spawned Hny0 ltac:(lia) eq_refl ltac:(simpl; lia)). lia.
  - destruct (wst_eqb (wat s i) Spawned) eqn:E; [|discriminate]. injection Hstep as <-.
    apply wst_eqb_eq in E. simpl.
    pose proof (rank_cnt_update s i Spawned Started E ltac:(apply wat_lt; rewrite E; discriminate) eq_refl ltac:(simpl; lia)). lia.
  - destruct (wst_eqb (wat s i) Started) eqn:E; [|discriminate]. injection Hstep as <-.
    apply wst_eqb_eq in E. simpl.
    pose proof (rank_cnt_update s i Started Stored E ltac:(apply wat_lt; rewrite E; discriminate) eq_refl ltac:(simpl; lia)). lia.
  - destruct (wst_eqb (wat s i) Stored) eqn:E; [|discriminate]. injection Hstep as <-.
    apply wst_eqb_eq in E. simpl.
    pose proof (rank_cnt_update s i Stored Logged E ltac:(apply wat_lt; rewrite E; discriminate) eq_refl ltac:(simpl; lia)). lia.
  - destruct (wst_eqb (wat s i) Logged && (0 <? sem s)) eqn:E; [|discriminate]. injection Hstep as <-.
    apply andb_true_iff in E as [E _]. apply wst_eqb_eq in E. simpl.
    pose proof (rank_cnt_update s i Logged Released E ltac:(apply wat_lt; rewrite E; discriminate) eq_refl ltac:(simpl; lia)). lia.
  - destruct (pc s) as [i|j|] eqn:Epc; try discriminate.
    destruct ((j <? limit) && (sem s <? limit)) eqn:E; [|discriminate]. injection Hstep as <-.
    apply andb_true_iff in E as [E1 _]. apply Nat.ltb_lt in E1. simpl. lia.
  - destruct (pc s) as [i|j|] eqn:Epc; try discriminate.
    destruct (j <? limit) eqn:E; [discriminate|]. injection Hstep as <-.
    apply Nat.ltb_ge in E. simpl in *. lia.
Qed.

Lemma measure_init : measure init = 5 * k + limit + 1.
Proof using.
  unfold Par.measure, Par.init; cbn [ws pc]. rewrite count_repeat, mk_spawn_measure. change (togo NotYet) with 5. lia.
Qed.

Lemma measure_path s ls s' : reachable s -> path s ls s' -> measure s' + length ls = measure s.
Proof using.
  intros Hr Hp. induction Hp as [|s l s' ls s'' Hs Hp IH]; simpl; [lia|].
  pose proof (measure_step s l s' Hr Hs). specialize (IH (r_step _ _ _ Hr Hs)). lia.
Qed.

(* every schedule is finite: no execution has more than 5k + limit + 1 transitions ... *)
Theorem termination ls s : path init ls s -> length ls <= 5 * k + limit + 1.
Proof using. intros Hp. pose proof (measure_path _ _ _ r_init Hp). rewrite measure_init in *. lia. Qed.

Lemma measure_returned s : reachable s -> (measure s = 0 <-> pc s = PReturned).
Proof using.
  intros Hr. split.
  - unfold Par.measure. destruct (pc s); simpl; try lia. reflexivity.
  - intros Hret. destruct (returned_complete s Hr Hret) as [Hrel _].
    destruct (reachable_inv s Hr) as (Hlw & _).
    unfold Par.measure. rewrite Hret. simpl.
    assert (forall l : list wst, (forall i, i < length l -> nth i l NotYet = Released) -> count togo l = 0) as Hc.
    { induction l as [|x t IH]; simpl; intros H; [reflexivity|].
      rewrite (H 0 ltac:(lia)) at 1. simpl. apply IH. intros i Hi. apply (H (S i)). lia. }
    rewrite Hc; [reflexivity|]. intros i Hi. apply Hrel. lia.
Qed.

(* ... and, for limit >= 1, every maximal execution (one that cannot be extended) has exactly
   that many transitions and ends with Execute having returned *)
Theorem maximal_returns ls s : 1 <= limit -> path init ls s ->
  (forall l, step_ok s l = None) -> pc s = PReturned /\ length ls = 5 * k + limit + 1.
Proof using.
  intros Hlim Hp Hmax. pose proof (path_reachable _ _ _ r_init Hp) as Hr.
  assert (Hret : pc s = PReturned).
  { destruct (pc s) eqn:E; try reflexivity.
    all: destruct (progress s Hlim Hr ltac:(congruence)) as (l & s' & Hs); rewrite Hmax in Hs; discriminate. }
  split; [assumption|]. pose proof (measure_path _ _ _ r_init Hp) as Hm.
  rewrite measure_init in Hm. apply (measure_returned s Hr) in Hret. lia.
Qed.

(* ================= the executable acceptor ================= *)
Notation tau_labels := (tau_labels k).
Notation first_step := (first_step R k limit res).
Notation tau_close := (tau_close R k limit res).
Notation closure := (closure R k limit res).
Notation run_trace := (run_trace R k limit res).
Notation accepts := (accepts R k limit res).
Notation slots_after := (slots_after R k limit res).

Lemma first_step_some s ls l s' : first_step s ls = Some (l, s') -> In l ls /\ step_ok s l = Some s'.
Proof using.
  induction ls as [|a r IH]; simpl; [discriminate|].
  destruct (step_ok s a) eqn:E.
  - intros H. injection H as <- <-. split; [left; reflexivity|assumption].
  - intros H. destruct (IH H). split; [right; assumption|assumption].
Qed.
Lemma first_step_none s ls : first_step s ls = None -> forall l, In l ls -> step_ok s l = None.
Proof using.
  induction ls as [|a r IH]; simpl; [contradiction|].
  destruct (step_ok s a) eqn:E; [discriminate|]. intros H l [<-|Hl]; [assumption|apply IH; assumption].
Qed.
Lemma first_step_all_none s ls : (forall l, step_ok s l = None) -> first_step s ls = None.
Proof using. intros H. induction ls as [|a r IH]; simpl; [reflexivity|]. rewrite H. exact IH. Qed.

Lemma tau_labels_internal l : In l tau_labels -> event_of l = None.
Proof using.
  unfold Par.tau_labels. intros [<-|[<-|H]]; try reflexivity.
  apply in_flat_map in H as (i & _ & [<-|[<-|[]]]); reflexivity.
Qed.

Lemma vis_app a b : vis (a ++ b) = vis a ++ vis b.
Proof using. induction a as [|l a IH]; simpl; [reflexivity|]. destruct (event_of l); simpl; congruence. Qed.
Lemma event_label e : event_of (label_of e) = Some e.
Proof using. destruct e; reflexivity. Qed.
Lemma label_event l e : event_of l = Some e -> l = label_of e.
Proof using. destruct l; simpl; intros H; try discriminate; injection H as <-; reflexivity. Qed.

Lemma tau_close_path fuel s : exists ls, path s ls (tau_close fuel s) /\ vis ls = [].
Proof using.
  revert s; induction fuel as [|f IH]; intros s; cbn [Par.tau_close]; [exists []; split; [constructor|reflexivity]|].
  destruct (first_step s tau_labels) as [[l s']|] eqn:E; [|exists []; split; [constructor|reflexivity]].
  apply first_step_some in E as [Hin Hs]. destruct (IH s') as (ls & Hp & Hv).
  exists (l :: ls). split; [econstructor; eauto|]. simpl. rewrite (tau_labels_internal l Hin). exact Hv.
Qed.

Lemma run_trace_path s t s' : run_trace s t = Some s' -> exists ls, path s ls s' /\ vis ls = t.
Proof using.
  revert s; induction t as [|e t IH]; intros s; cbn [Par.run_trace].
  - intros H. injection H as <-. exists []. split; [constructor|reflexivity].
  - destruct (step_ok s (label_of e)) as [s1|] eqn:E; [|discriminate]. intros H.
    destruct (IH _ H) as (ls2 & Hp2 & Hv2).
    destruct (tau_close_path (measure s1) s1) as (ls1 & Hp1 & Hv1).
    exists (label_of e :: ls1 ++ ls2). split.
    + econstructor; [exact E|]. eapply path_app; eauto.
    + simpl. rewrite event_label, vis_app, Hv1, Hv2. reflexivity.
Qed.

(* soundness: an accepted trace is the observable part of a complete execution of the LTS *)
Theorem accepts_sound t : accepts t = true ->
  exists ls s, path init ls s /\ vis ls = t /\ pc s = PReturned.
Proof using.
  unfold Par.accepts. destruct (run_trace (closure init) t) as [s|] eqn:E; [|discriminate]. intros Hret.
  destruct (run_trace_path _ _ _ E) as (ls2 & Hp2 & Hv2).
  destruct (tau_close_path (measure init) init) as (ls1 & Hp1 & Hv1).
  exists (ls1 ++ ls2), s. split; [eapply path_app; eauto|]. split; [rewrite vis_app, Hv1, Hv2; reflexivity|].
  unfold is_returned in Hret. destruct (pc s); congruence.
Qed.

(* the returned slice predicted for an accepted trace is the sequential one, whatever the trace *)
Theorem slots_after_sequential t : accepts t = true -> slots_after t = Some sequential.
Proof using.
  intros Ha. unfold Par.slots_after. unfold Par.accepts in Ha.
  destruct (run_trace (closure init) t) as [s|] eqn:E; [|discriminate]. rewrite Ha. f_equal.
  destruct (run_trace_path _ _ _ E) as (ls2 & Hp2 & _).
  destruct (tau_close_path (measure init) init) as (ls1 & Hp1 & _).
  assert (Hr : reachable s) by (eapply path_reachable; [|exact Hp2]; eapply path_reachable; [apply r_init|exact Hp1]).
  apply returned_complete; [assumption|]. unfold is_returned in Ha. destruct (pc s); congruence.
Qed.

(* ---- completeness: eager internal steps lose nothing ---- *)
Definition closed (g : st) : Prop := forall l, event_of l = None -> step_ok g l = None.

Lemma tau_close_reachable fuel s : reachable s -> reachable (tau_close fuel s).
Proof using. intros Hr. destruct (tau_close_path fuel s) as (ls & Hp & _). eapply path_reachable; eauto. Qed.

Lemma tau_close_fixed fuel s : reachable s -> measure s <= fuel ->
  first_step (tau_close fuel s) tau_labels = None.
Proof using.
  revert s; induction fuel as [|f IH]; intros s Hr Hm; cbn [Par.tau_close].
  - apply first_step_all_none. apply returned_final; [assumption|]. apply measure_returned; [assumption|lia].
  - destruct (first_step s tau_labels) as [[l s']|] eqn:E; [|exact E].
    apply first_step_some in E as [_ Hs]. apply IH; [econstructor; eauto|].
    pose proof (measure_step s l s' Hr Hs). lia.
Qed.

Lemma closure_closed s : reachable s -> closed (closure s).
Proof using.
  intros Hr l Hl. unfold Par.closure.
  pose proof (tau_close_fixed _ s Hr (le_n _)) as Hf.
  pose proof (tau_close_reachable (measure s) s Hr) as Hr'.
  set (g := tau_close (measure s) s) in *.
  pose proof (first_step_none _ _ Hf) as Hn.
  destruct (reachable_inv g Hr') as (Hlw & _).
  assert (Hover : forall i a, k <= i -> a <> NotYet -> wst_eqb (wat g i) a = false).
  { intros i a Hi Ha. destruct (wst_eqb (wat g i) a) eqn:E; [|reflexivity]. apply wst_eqb_eq in E.
    unfold wat in E. rewrite nth_overflow in E by lia. congruence. }
  destruct l as [|i|i|i|i| |]; try discriminate.
  - apply Hn. left; reflexivity.
  - destruct (Nat.lt_ge_cases i k) as [Hi|Hi].
    + apply Hn. right; right. apply in_flat_map. exists i. split; [apply in_seq; lia|left; reflexivity].
    + cbn [Par.step_ok]. rewrite Hover by (assumption || discriminate). reflexivity.
  - destruct (Nat.lt_ge_cases i k) as [Hi|Hi].
    + apply Hn. right; right. apply in_flat_map. exists i. split; [apply in_seq; lia|right; left; reflexivity].
    + cbn [Par.step_ok]. rewrite Hover by (assumption || discriminate). reflexivity.
  - apply Hn. right; left; reflexivity.
Qed.

Definition cls (w : wst) : nat :=
  match w with NotYet | Spawned => 0 | Started | Stored => 1 | Logged | Released => 2 end.

Definition ahead (s g : st) : Prop :=
  (forall i, cls (wat s i) = cls (wat g i) /\ rank (wat s i) <= rank (wat g i)) /\
  spawned_pc (pc s) <= spawned_pc (pc g) /\ waitc_pc (pc s) <= waitc_pc (pc g) /\
  (pc s = PReturned <-> pc g = PReturned).

Lemma ahead_refl s : ahead s s.
Proof using. unfold ahead. repeat split; auto. Qed.

Lemma nth_update_if {A} i (b d : A) l j :
  nth j (update i b l) d = if Nat.eqb j i && (i <? length l) then b else nth j l d.
Proof using.
  destruct (Nat.eqb_spec j i) as [->|Hne]; simpl.
  - destruct (i <? length l) eqn:E.
    + apply Nat.ltb_lt in E. apply nth_update_eq; assumption.
    + apply Nat.ltb_ge in E. rewrite !nth_overflow; [reflexivity|lia|rewrite update_length; lia].
  - apply nth_update_neq. congruence.
Qed.

(* what a step does, seen through wat / pc *)
Lemma step_view s l s' : Inv s -> step_ok s l = Some s' ->
  match l with
  | main_acquire_spawn => exists i, pc s = PSpawn i /\ i < k /\ sem s < limit /\ pc s' = mk_spawn (S i) /\
      wat s i = NotYet /\ forall j, wat s' j = if Nat.eqb j i then Spawned else wat s j
  | w_logstart i => wat s i = Spawned /\ pc s' = pc s /\ forall j, wat s' j = if Nat.eqb j i then Started else wat s j
  | w_store i => wat s i = Started /\ pc s' = pc s /\ forall j, wat s' j = if Nat.eqb j i then Stored else wat s j
  | w_logdone i => wat s i = Stored /\ pc s' = pc s /\ forall j, wat s' j = if Nat.eqb j i then Logged else wat s j
  | w_release i => wat s i = Logged /\ pc s' = pc s /\ forall j, wat s' j = if Nat.eqb j i then Released else wat s j
  | main_wait_acquire => exists j, pc s = PWait j /\ j < limit /\ sem s < limit /\ pc s' = PWait (S j) /\
      forall i, wat s' i = wat s i
  | main_return => exists j, pc s = PWait j /\ limit <= j /\ pc s' = PReturned /\ forall i, wat s' i = wat s i
  end.
Proof using.
  intros (Hlw & Hlr & Hsem & Hle & Hpc & Hny & Hrs) Hstep.
  assert (Hupd : forall i a b, wat s i = a -> a <> NotYet ->
            forall j, nth j (update i b (ws s)) NotYet = if Nat.eqb j i then b else wat s j).
  { intros i a b Ha Hn j. rewrite nth_update_if.
    replace (i <? length (ws s)) with true by (symmetry; apply Nat.ltb_lt; apply wat_lt; congruence).
    rewrite andb_true_r. reflexivity. }
  destruct l as [|i|i|i|i| |]; cbn [Par.step_ok] in Hstep.
  - destruct (pc s) as [i|j|] eqn:Epc; try discriminate.
    destruct (sem s <? limit) eqn:E; [|discriminate]. injection Hstep as <-. apply Nat.ltb_lt in E.
    simpl in Hpc, Hny. exists i. repeat split; try assumption; try reflexivity.
    + apply Hny; lia.
    + intros j. unfold wat; simpl. rewrite nth_update_if.
      replace (i <? length (ws s)) with true by (symmetry; apply Nat.ltb_lt; lia). rewrite andb_true_r. reflexivity.
  - destruct (wst_eqb (wat s i) Spawned) eqn:E; [|discriminate]. injection Hstep as <-. apply wst_eqb_eq in E.
    repeat split; try assumption. intros j. unfold wat at 1; simpl. apply (Hupd i Spawned); [assumption|discriminate].
  - destruct (wst_eqb (wat s i) Started) eqn:E; [|discriminate]. injection Hstep as <-. apply wst_eqb_eq in E.
    repeat split; try assumption. intros j. unfold wat at 1; simpl. apply (Hupd i Started); [assumption|discriminate].
  - destruct (wst_eqb (wat s i) Stored) eqn:E; [|discriminate]. injection Hstep as <-. apply wst_eqb_eq in E.
    repeat split; try assumption. intros j. unfold wat at 1; simpl. apply (Hupd i Stored); [assumption|discriminate].
  - destruct (wst_eqb (wat s i) Logged && (0 <? sem s)) eqn:E; [|discriminate]. injection Hstep as <-.
    apply andb_true_iff in E as [E _]. apply wst_eqb_eq in E.
    repeat split; try assumption. intros j. unfold wat at 1; simpl. apply (Hupd i Logged); [assumption|discriminate].
  - destruct (pc s) as [i|j|] eqn:Epc; try discriminate.
    destruct ((j <? limit) && (sem s <? limit)) eqn:E; [|discriminate]. injection Hstep as <-.
    apply andb_true_iff in E as [E1 E2]. apply Nat.ltb_lt in E1, E2. exists j. repeat split; assumption || reflexivity.
  - destruct (pc s) as [i|j|] eqn:Epc; try discriminate.
    destruct (j <? limit) eqn:E; [discriminate|]. injection Hstep as <-. apply Nat.ltb_ge in E.
    exists j. repeat split; assumption || reflexivity.
Qed.

(* in a closed state the workers that hold a token are waiting for an observable step *)
Lemma closed_worker g i : reachable g -> closed g -> wat g i <> Started /\ wat g i <> Logged.
Proof using.
  intros Hr Hc. destruct (reachable_inv g Hr) as (Hlw & Hlr & Hsem & Hle & Hpc & Hny & Hrs). split; intros E.
  - specialize (Hc (w_store i) eq_refl). cbn [Par.step_ok] in Hc. rewrite E in Hc. discriminate.
  - specialize (Hc (w_release i) eq_refl). cbn [Par.step_ok] in Hc. rewrite E in Hc. simpl in Hc.
    assert (Hi : i < length (ws g)) by (apply wat_lt; congruence).
    pose proof (count_update isact i NotYet (ws g) Hi) as Hcu. fold (wat g i) in Hcu. rewrite E in Hcu. simpl in Hcu.
    replace (0 <? sem g) with true in Hc by (symmetry; apply Nat.ltb_lt; lia). discriminate.
Qed.

Lemma count_le_pointwise f (l l' : list wst) : length l = length l' ->
  (forall i, f (nth i l NotYet) <= f (nth i l' NotYet)) -> count f l <= count f l'.
Proof using.
  revert l'; induction l as [|x t IH]; intros [|y t'] Hl H; simpl in *; try lia.
  pose proof (H 0) as H0. simpl in H0. specialize (IH t' ltac:(lia) (fun i => H (S i))). lia.
Qed.

Lemma closed_active_le s g : reachable s -> reachable g -> closed g -> ahead s g ->
  spawned_pc (pc g) <= spawned_pc (pc s) -> count isact (ws g) <= count isact (ws s).
Proof using.
  intros Hrs Hrg Hc (Hw & Hsp & _) Hsp'.
  destruct (reachable_inv s Hrs) as (Hlw & _ & _ & _ & _ & Hny & _).
  destruct (reachable_inv g Hrg) as (Hlwg & _ & _ & _ & _ & Hnyg & _).
  apply count_le_pointwise; [lia|]. intros i. fold (wat g i) (wat s i).
  destruct (Hw i) as [Hcl Hrk]. destruct (closed_worker g i Hrg Hc) as [Hns Hnl].
  destruct (wat g i) eqn:Eg; simpl; try lia; try congruence.
  - (* Spawned in g: spawned in s as well *)
    assert (Hi : i < k). { rewrite <- Hlwg. apply wat_lt. congruence. }
    assert (wat s i <> NotYet). { intros E. apply Hny in E; [|assumption]. assert (wat g i = NotYet) by (apply Hnyg; lia). congruence. }
    destruct (wat s i); simpl in *; try lia; congruence.
  - destruct (wat s i); simpl in *; try lia; discriminate.
Qed.

(* an internal step of the slower execution stays behind a closed one *)
Lemma sim_tau s g l s' : reachable s -> reachable g -> closed g -> ahead s g ->
  step_ok s l = Some s' -> event_of l = None -> ahead s' g.
Proof using.
  intros Hrs Hrg Hc Ha Hstep Hl. pose proof Ha as (Hw & Hsp & Hwc & Hret).
  pose proof (reachable_inv s Hrs) as HIs. pose proof (reachable_inv g Hrg) as HIg.
  pose proof (step_view s l s' HIs Hstep) as Hv.
  destruct HIs as (Hlw & _ & Hsem & Hle & Hpc & Hny & _).
  destruct HIg as (Hlwg & _ & Hsemg & Hleg & Hpcg & Hnyg & _).
  destruct l as [|i|i|i|i| |]; try discriminate.
  - (* spawn *)
    destruct Hv as (i & Epc & Hi & Hlt & Epc' & Hn & Hwat).
    destruct (mk_spawn_facts (S i) ltac:(lia)) as (Hs1 & Hs2 & _).
    rewrite Epc in *. simpl in Hsp, Hwc, Hsem.
    assert (Hgi : S i <= spawned_pc (pc g)).
    { destruct (Nat.lt_ge_cases i (spawned_pc (pc g))) as [|Hge]; [lia|]. exfalso.
      assert (Eg : pc g = PSpawn i).
      { destruct (pc g) as [i'|j'|]; simpl in *; try lia. f_equal. lia. }
      pose proof (Hc main_acquire_spawn eq_refl) as Hcs. cbn [Par.step_ok] in Hcs. rewrite Eg in Hcs.
      destruct (sem g <? limit) eqn:E; [discriminate|]. apply Nat.ltb_ge in E.
      pose proof (closed_active_le s g Hrs Hrg Hc Ha) as Hcnt. rewrite Eg, Epc in Hcnt. simpl in Hcnt.
      specialize (Hcnt (le_n _)). rewrite Eg in Hsemg. simpl in Hsemg. lia. }
    unfold ahead. rewrite Epc', Hs1, Hs2. split; [|split; [lia|split; [lia|]]].
    + intros j. rewrite Hwat. destruct (Nat.eqb_spec j i) as [->|]; [|apply Hw].
      destruct (Hw i) as [Hcl _]. rewrite Hn in Hcl. split; [exact Hcl|].
      assert (wat g i <> NotYet) by (intros E; apply Hnyg in E; lia).
      destruct (wat g i); simpl; try lia; congruence.
    + split; intros E.
      * unfold Par.mk_spawn in E. destruct (S i <? k); discriminate.
      * apply Hret in E. discriminate.
  - (* store *)
    destruct Hv as (Ei & Epc' & Hwat). unfold ahead. rewrite Epc'. split; [|tauto].
    intros j. rewrite Hwat. destruct (Nat.eqb_spec j i) as [->|]; [|apply Hw].
    destruct (Hw i) as [Hcl Hrk]. rewrite Ei in Hcl, Hrk. destruct (closed_worker g i Hrg Hc) as [Hns _].
    destruct (wat g i); simpl in *; try lia; try discriminate; congruence.
  - (* release *)
    destruct Hv as (Ei & Epc' & Hwat). unfold ahead. rewrite Epc'. split; [|tauto].
    intros j. rewrite Hwat. destruct (Nat.eqb_spec j i) as [->|]; [|apply Hw].
    destruct (Hw i) as [Hcl Hrk]. rewrite Ei in Hcl, Hrk. destruct (closed_worker g i Hrg Hc) as [_ Hnl].
    destruct (wat g i); simpl in *; try lia; try discriminate; congruence.
  - (* wait *)
    destruct Hv as (j & Epc & Hj & Hlt & Epc' & Hwat).
    rewrite Epc in *. simpl in Hsp, Hwc, Hsem.
    assert (Hg : exists j', pc g = PWait j' /\ S j <= j').
    { destruct (pc g) as [i'|j'|] eqn:Eg; simpl in *.
      - lia.
      - exists j'. split; [reflexivity|]. destruct (Nat.lt_ge_cases j j') as [|Hge]; [lia|]. exfalso.
        assert (j' = j) by lia. subst j'.
        pose proof (Hc main_wait_acquire eq_refl) as Hcs. cbn [Par.step_ok] in Hcs. rewrite Eg in Hcs.
        replace (j <? limit) with true in Hcs by (symmetry; apply Nat.ltb_lt; lia). simpl in Hcs.
        destruct (sem g <? limit) eqn:E; [discriminate|]. apply Nat.ltb_ge in E.
        pose proof (closed_active_le s g Hrs Hrg Hc Ha) as Hcnt. rewrite Eg, Epc in Hcnt. simpl in Hcnt.
        specialize (Hcnt (le_n _)). lia.
      - destruct Hret as [_ Hret]. specialize (Hret eq_refl). discriminate. }
    destruct Hg as (j' & Eg & Hj'). unfold ahead. rewrite Epc', Eg. simpl.
    split; [intros i; rewrite Hwat; apply Hw|]. split; [lia|]. split; [lia|]. split; discriminate.
Qed.

(* an observable step of the slower execution is enabled in the closed one *)
Lemma sim_vis s g l e s' : reachable s -> reachable g -> closed g -> ahead s g ->
  step_ok s l = Some s' -> event_of l = Some e -> exists g', step_ok g l = Some g' /\ ahead s' g'.
Proof using.
  intros Hrs Hrg Hc Ha Hstep Hl. pose proof Ha as (Hw & Hsp & Hwc & Hret).
  pose proof (reachable_inv s Hrs) as HIs. pose proof (reachable_inv g Hrg) as HIg.
  pose proof (step_view s l s' HIs Hstep) as Hv.
  destruct l as [|i|i|i|i| |]; try discriminate.
  - (* start *)
    destruct Hv as (Ei & Epc' & Hwat).
    destruct (Hw i) as [Hcl Hrk]. rewrite Ei in Hcl, Hrk.
    assert (Eg : wat g i = Spawned) by (destruct (wat g i); simpl in *; try lia; try discriminate; reflexivity).
    destruct (step_ok g (w_logstart i)) as [g'|] eqn:Hg; [|cbn [Par.step_ok] in Hg; rewrite Eg in Hg; discriminate].
    exists g'. split; [reflexivity|]. destruct (step_view g _ g' HIg Hg) as (_ & Egpc & Hwatg).
    unfold ahead. rewrite Epc', Egpc. split; [|tauto].
    intros j. rewrite Hwat, Hwatg. destruct (Nat.eqb_spec j i); [split; simpl; lia|apply Hw].
  - (* done *)
    destruct Hv as (Ei & Epc' & Hwat).
    destruct (Hw i) as [Hcl Hrk]. rewrite Ei in Hcl, Hrk. destruct (closed_worker g i Hrg Hc) as [Hns _].
    assert (Eg : wat g i = Stored) by (destruct (wat g i); simpl in *; try lia; try discriminate; congruence).
    destruct (step_ok g (w_logdone i)) as [g'|] eqn:Hg; [|cbn [Par.step_ok] in Hg; rewrite Eg in Hg; discriminate].
    exists g'. split; [reflexivity|]. destruct (step_view g _ g' HIg Hg) as (_ & Egpc & Hwatg).
    unfold ahead. rewrite Epc', Egpc. split; [|tauto].
    intros j. rewrite Hwat, Hwatg. destruct (Nat.eqb_spec j i); [split; simpl; lia|apply Hw].
  - (* return *)
    destruct Hv as (j & Epc & Hj & Epc' & Hwat).
    destruct HIg as (_ & _ & _ & _ & Hpcg & _).
    rewrite Epc in *. simpl in Hsp, Hwc.
    assert (Hg : exists j', pc g = PWait j' /\ limit <= j').
    { destruct (pc g) as [i'|j'|] eqn:Eg; simpl in *.
      - lia.
      - exists j'. split; [reflexivity|lia].
      - destruct Hret as [_ Hret]. specialize (Hret eq_refl). discriminate. }
    destruct Hg as (j' & Eg & Hj').
    destruct (step_ok g main_return) as [g'|] eqn:Hg.
    2:{ cbn [Par.step_ok] in Hg. rewrite Eg in Hg.
        replace (j' <? limit) with false in Hg by (symmetry; apply Nat.ltb_ge; lia). discriminate. }
    exists g'. split; [reflexivity|].
    destruct (step_view g _ g' (reachable_inv g Hrg) Hg) as (j'' & _ & _ & Egpc & Hwatg).
    unfold ahead. rewrite Epc', Egpc. simpl. split; [|split; [lia|split; [lia|tauto]]].
    intros i. rewrite Hwat, Hwatg. apply Hw.
Qed.

(* internal steps of the faster execution keep it ahead *)
Lemma ahead_tau_step s g l g' : reachable g -> ahead s g -> step_ok g l = Some g' -> event_of l = None -> ahead s g'.
Proof using.
  intros Hrg (Hw & Hsp & Hwc & Hret) Hstep Hl.
  pose proof (reachable_inv g Hrg) as HIg. pose proof (step_view g l g' HIg Hstep) as Hv.
  destruct l as [|i|i|i|i| |]; try discriminate.
  - destruct Hv as (i & Epc & Hi & Hlt & Epc' & Hn & Hwat).
    destruct (mk_spawn_facts (S i) ltac:(lia)) as (Hs1 & Hs2 & _).
    rewrite Epc in *. simpl in Hsp, Hwc.
    unfold ahead. rewrite Epc', Hs1, Hs2. split; [|split; [lia|split; [lia|]]].
    + intros j. rewrite Hwat. destruct (Nat.eqb_spec j i) as [->|]; [|apply Hw].
      destruct (Hw i) as [Hcl Hrk]. rewrite Hn in Hcl, Hrk. split; [exact Hcl|simpl in *; lia].
    + split; intros E.
      * apply Hret in E. discriminate.
      * unfold Par.mk_spawn in E. destruct (S i <? k); discriminate.
  - destruct Hv as (Ei & Epc' & Hwat). unfold ahead. rewrite Epc'. split; [|tauto].
    intros j. rewrite Hwat. destruct (Nat.eqb_spec j i) as [->|]; [|apply Hw].
    destruct (Hw i) as [Hcl Hrk]. rewrite Ei in Hcl, Hrk. split; [exact Hcl|simpl in *; lia].
  - destruct Hv as (Ei & Epc' & Hwat). unfold ahead. rewrite Epc'. split; [|tauto].
    intros j. rewrite Hwat. destruct (Nat.eqb_spec j i) as [->|]; [|apply Hw].
    destruct (Hw i) as [Hcl Hrk]. rewrite Ei in Hcl, Hrk. split; [exact Hcl|simpl in *; lia].
  - destruct Hv as (j & Epc & Hj & Hlt & Epc' & Hwat). rewrite Epc in *. simpl in Hsp, Hwc.
    unfold ahead. rewrite Epc'. simpl. split; [intros i; rewrite Hwat; apply Hw|].
    split; [lia|]. split; [lia|]. split; [intros E; apply Hret in E; discriminate|discriminate].
Qed.

Lemma ahead_tau_close fuel s g : reachable g -> ahead s g -> ahead s (tau_close fuel g).
Proof using.
  revert g; induction fuel as [|f IH]; intros g Hr Ha; cbn [Par.tau_close]; [assumption|].
  destruct (first_step g tau_labels) as [[l g']|] eqn:E; [|assumption].
  apply first_step_some in E as [Hin Hs]. apply IH; [econstructor; eauto|].
  eapply ahead_tau_step; eauto. apply tau_labels_internal; assumption.
Qed.

Lemma run_trace_complete s ls s' : path s ls s' -> forall g,
  reachable s -> reachable g -> closed g -> ahead s g ->
  exists g', run_trace g (vis ls) = Some g' /\ ahead s' g'.
Proof using.
  induction 1 as [s|s l s1 ls s2 Hs Hp IH]; intros g Hrs Hrg Hc Ha; cbn [vis].
  - exists g. split; [reflexivity|assumption].
  - destruct (event_of l) as [e|] eqn:El.
    + destruct (sim_vis s g l e s1 Hrs Hrg Hc Ha Hs El) as (g1 & Hg1 & Ha1).
      assert (Hrg1 : reachable g1) by (econstructor; eauto).
      destruct (IH (closure g1)) as (g' & Hrun & Ha').
      * exact (r_step _ _ _ Hrs Hs).
      * apply tau_close_reachable; assumption.
      * apply closure_closed; assumption.
      * apply ahead_tau_close; assumption.
      * exists g'. split; [|assumption]. cbn [Par.run_trace]. rewrite <- (label_event l e El), Hg1. exact Hrun.
    + apply IH; try assumption; [exact (r_step _ _ _ Hrs Hs)|]. exact (sim_tau s g l s1 Hrs Hrg Hc Ha Hs El).
Qed.

(* completeness: the observable part of every complete execution is accepted *)
Theorem accepts_complete ls s : path init ls s -> pc s = PReturned -> accepts (vis ls) = true.
Proof using.
  intros Hp Hret.
  destruct (run_trace_complete init ls s Hp (closure init) r_init
              (tau_close_reachable _ _ r_init) (closure_closed _ r_init)
              (ahead_tau_close _ _ _ r_init (ahead_refl _))) as (g' & Hrun & (_ & _ & _ & Hiff)).
  unfold Par.accepts. rewrite Hrun. unfold is_returned. rewrite (proj1 Hiff Hret). reflexivity.
Qed.

(* accepted traces are exactly the observable parts of the complete executions *)
Theorem accepts_iff t : accepts t = true <-> exists ls s, path init ls s /\ vis ls = t /\ pc s = PReturned.
Proof using.
  split; [apply accepts_sound|]. intros (ls & s & Hp & <- & Hret). eapply accepts_complete; eauto.
Qed.

(* everything the model can say, together *)
Theorem all_schedules : 1 <= limit ->
  (forall s, reachable s -> running s <= limit) /\
  (forall s, reachable s -> pc s = PReturned ->
     (forall i, i < k -> wat s i = Released) /\ rs s = map (fun i => Some (res i)) (seq 0 k)) /\
  (forall s, reachable s -> pc s <> PReturned -> exists l s', step_ok s l = Some s') /\
  (forall ls s, path init ls s -> length ls <= 5 * k + limit + 1).
Proof using.
  intros Hlim. split; [intros s Hr; apply at_most_limit_running; assumption|].
  split; [exact returned_complete|]. split; [intros s; apply progress; assumption|exact termination].
Qed.

(* ================= the controller-driven scheduler (dispatch `parallel`) ================= *)
Notation all_labels := (all_labels k).
Notation sim_close := (sim_close R k limit res).
Notation quiesce := (quiesce R k limit res).
Notation open_gates := (open_gates R k limit res).
Notation simulate := (simulate R k limit res).

Definition SimInv (opened : list nat) (x : sim R) : Prop :=
  reachable (sst x) /\
  (exists ls, path init ls (sst x) /\ strace x = rev (vis ls)) /\
  smax x <= limit /\
  (forall j, ~ In j opened -> rank (wat (sst x) j) <= 2).

Lemma SimInv_weaken opened opened' x : SimInv opened x -> incl opened opened' -> SimInv opened' x.
Proof using.
  intros (Hr & Hp & Hm & Hg) Hi. repeat split; try assumption. intros j Hj. apply Hg. intros H. apply Hj, Hi, H.
Qed.

Lemma existsb_eqb_In i l : existsb (Nat.eqb i) l = true -> In i l.
Proof using. intros H. apply existsb_exists in H as (x & Hx & E). apply Nat.eqb_eq in E. congruence. Qed.

Lemma sim_close_inv opened fuel x : SimInv opened x -> SimInv opened (sim_close opened fuel x).
Proof using.
  revert x; induction fuel as [|f IH]; intros x HI; cbn [Par.sim_close]; [assumption|].
  destruct (first_step (sst x) (filter (gate_ok opened) all_labels)) as [[l s']|] eqn:E; [|assumption].
  apply first_step_some in E as [Hin Hs]. apply filter_In in Hin as [_ Hgate].
  destruct HI as (Hr & (ls & Hp & Htr) & Hm & Hg).
  assert (Hr' : reachable s') by (econstructor; eauto).
  apply IH. unfold SimInv; cbn [sst strace smax]. split; [assumption|]. split; [|split].
  - exists (ls ++ [l]). split; [eapply path_app; [exact Hp|econstructor; [exact Hs|constructor]]|].
    rewrite vis_app, rev_app_distr. simpl. destruct (event_of l); simpl; congruence.
  - destruct (at_most_limit_running s' Hr') as [_ Hrun]. apply Nat.max_lub; assumption.
  - intros j Hj. specialize (Hg j Hj). pose proof (step_view (sst x) l s' (reachable_inv _ Hr) Hs) as Hv.
    destruct l as [|i|i|i|i| |].
    + destruct Hv as (i & _ & _ & _ & _ & Hn & Hwat). rewrite Hwat. destruct (Nat.eqb_spec j i); [simpl; lia|assumption].
    + destruct Hv as (_ & _ & Hwat). rewrite Hwat. destruct (Nat.eqb_spec j i); [simpl; lia|assumption].
    + destruct Hv as (_ & _ & Hwat). rewrite Hwat. destruct (Nat.eqb_spec j i) as [->|]; [|assumption].
      exfalso. apply Hj. apply existsb_eqb_In. exact Hgate.
    + destruct Hv as (Ei & _ & Hwat). rewrite Hwat. destruct (Nat.eqb_spec j i) as [->|]; [|assumption].
      rewrite Ei in Hg. simpl in Hg. lia.
    + destruct Hv as (Ei & _ & Hwat). rewrite Hwat. destruct (Nat.eqb_spec j i) as [->|]; [|assumption].
      rewrite Ei in Hg. simpl in Hg. lia.
    + destruct Hv as (j0 & _ & _ & _ & _ & Hwat). rewrite Hwat. assumption.
    + destruct Hv as (j0 & _ & _ & _ & Hwat). rewrite Hwat. assumption.
Qed.

Lemma sim_close_fixed opened fuel x : reachable (sst x) -> measure (sst x) <= fuel ->
  first_step (sst (sim_close opened fuel x)) (filter (gate_ok opened) all_labels) = None.
Proof using.
  revert x; induction fuel as [|f IH]; intros x Hr Hm; cbn [Par.sim_close].
  - apply first_step_all_none. apply returned_final; [assumption|]. apply measure_returned; [assumption|lia].
  - destruct (first_step (sst x) (filter (gate_ok opened) all_labels)) as [[l s']|] eqn:E; [|exact E].
    apply first_step_some in E as [_ Hs]. apply IH; cbn [sst]; [econstructor; eauto|].
    pose proof (measure_step _ l s' Hr Hs). lia.
Qed.

Lemma quiesce_inv opened x : SimInv opened x -> SimInv opened (quiesce opened x).
Proof using. apply sim_close_inv. Qed.

(* after quiescence nothing but a closed gate is enabled *)
Lemma quiesce_terminal opened x : SimInv opened x -> forall l,
  gate_ok opened l = true -> step_ok (sst (quiesce opened x)) l = None.
Proof using.
  intros HI l Hgate. pose proof (quiesce_inv opened x HI) as (Hr' & _).
  destruct HI as (Hr & _).
  pose proof (sim_close_fixed opened _ x Hr (le_n _)) as Hf. fold (quiesce opened x) in Hf.
  set (g := sst (quiesce opened x)) in *.
  pose proof (first_step_none _ _ Hf) as Hn.
  destruct (reachable_inv g Hr') as (Hlw & _).
  assert (Hover : forall i a, k <= i -> a <> NotYet -> wst_eqb (wat g i) a = false).
  { intros i a Hi Ha. destruct (wst_eqb (wat g i) a) eqn:E; [|reflexivity]. apply wst_eqb_eq in E.
    unfold wat in E. rewrite nth_overflow in E by lia. congruence. }
  assert (Hall : forall i, i < k -> forall l', In l' [w_logstart i; w_store i; w_logdone i; w_release i] -> In l' all_labels).
  { intros i Hi l' Hl'. unfold Par.all_labels. right; right; right. apply in_flat_map. exists i. split; [apply in_seq; lia|exact Hl']. }
  destruct l as [|i|i|i|i| |].
  - apply Hn. apply filter_In. split; [left; reflexivity|exact Hgate].
  - destruct (Nat.lt_ge_cases i k) as [Hi|Hi].
    + apply Hn. apply filter_In. split; [apply (Hall i Hi); simpl; tauto|exact Hgate].
    + cbn [Par.step_ok]. rewrite Hover by (assumption || discriminate). reflexivity.
  - destruct (Nat.lt_ge_cases i k) as [Hi|Hi].
    + apply Hn. apply filter_In. split; [apply (Hall i Hi); simpl; tauto|exact Hgate].
    + cbn [Par.step_ok]. rewrite Hover by (assumption || discriminate). reflexivity.
  - destruct (Nat.lt_ge_cases i k) as [Hi|Hi].
    + apply Hn. apply filter_In. split; [apply (Hall i Hi); simpl; tauto|exact Hgate].
    + cbn [Par.step_ok]. rewrite Hover by (assumption || discriminate). reflexivity.
  - destruct (Nat.lt_ge_cases i k) as [Hi|Hi].
    + apply Hn. apply filter_In. split; [apply (Hall i Hi); simpl; tauto|exact Hgate].
    + cbn [Par.step_ok]. rewrite Hover by (assumption || discriminate). reflexivity.
  - apply Hn. apply filter_In. split; [right; left; reflexivity|exact Hgate].
  - apply Hn. apply filter_In. split; [right; right; left; reflexivity|exact Hgate].
Qed.

Lemma open_gates_inv order : forall opened x,
  SimInv opened x -> NoDup order -> (forall j, In j order -> j < k /\ ~ In j opened) ->
  exists opened', SimInv opened' (fst (open_gates order opened x false)) /\
                  snd (open_gates order opened x false) = false.
Proof using.
  induction order as [|j r IH]; intros opened x HI Hnd Hin; cbn [Par.open_gates].
  - exists opened. split; [assumption|reflexivity].
  - destruct (Hin j (or_introl eq_refl)) as [Hj Hjo].
    assert (Hnr : is_returned (sst x) = false).
    { destruct HI as (Hr & _ & _ & Hg). unfold is_returned. destruct (pc (sst x)) eqn:E; try reflexivity.
      destruct (returned_complete _ Hr E) as [Hrel _]. specialize (Hg j Hjo). rewrite Hrel in Hg by assumption.
      simpl in Hg. lia. }
    rewrite Hnr. cbn [orb]. inversion Hnd as [|? ? Hnj Hnd']; subst.
    apply IH; [|assumption|].
    + apply quiesce_inv. apply (SimInv_weaken opened); [assumption|]. intros a Ha. right; assumption.
    + intros a Ha. destruct (Hin a (or_intror Ha)) as [Hak Hao]. split; [assumption|].
      intros [<-|H]; [apply Hnj; assumption|apply Hao; assumption].
Qed.

Lemma count_all f (l : list wst) n : (forall i, i < length l -> f (nth i l NotYet) = n) -> count f l = length l * n.
Proof using.
  induction l as [|x t IH]; simpl; intros H; [reflexivity|].
  rewrite (H 0 ltac:(lia)). rewrite IH; [reflexivity|]. intros i Hi. apply (H (S i)). lia.
Qed.
Lemma count_bound f (l : list wst) : (forall w, f w <= 1) -> count f l <= length l.
Proof using. intros H. induction l as [|x t IH]; simpl; [lia|]. specialize (H x). lia. Qed.
Lemma count_ext_pointwise f g (l : list wst) :
  (forall i, i < length l -> f (nth i l NotYet) = g (nth i l NotYet)) -> count f l = count g l.
Proof using.
  induction l as [|x t IH]; simpl; intros H; [reflexivity|].
  rewrite (H 0 ltac:(lia)). rewrite IH; [reflexivity|]. intros i Hi. apply (H (S i)). lia.
Qed.

(* with every gate closed exactly min(k, limit) algorithms start *)
Lemma saturation x : SimInv [] x -> running (sst (quiesce [] x)) = Nat.min k limit.
Proof using.
  intros HI. pose proof (quiesce_terminal [] x HI) as Hterm.
  pose proof (quiesce_inv [] x HI) as (Hr & _ & _ & Hg).
  set (g := sst (quiesce [] x)) in *.
  destruct (reachable_inv g Hr) as (Hlw & Hlr & Hsem & Hle & Hpc & Hny & Hrs).
  (* every worker is NotYet or Started *)
  assert (Hw : forall i, wat g i = NotYet \/ wat g i = Started).
  { intros i. specialize (Hg i (fun H => H)). pose proof (Hterm (w_logstart i) eq_refl) as Hs.
    cbn [Par.step_ok] in Hs. destruct (wat g i); simpl in *; try lia; try discriminate; tauto. }
  assert (Hra : running g = count isact (ws g)).
  { unfold running. apply count_ext_pointwise. intros i _. fold (wat g i). destruct (Hw i) as [->| ->]; reflexivity. }
  rewrite Hra.
  destruct (pc g) as [i|j|] eqn:Epc; simpl in *.
  - pose proof (Hterm main_acquire_spawn eq_refl) as Hs. cbn [Par.step_ok] in Hs. rewrite Epc in Hs.
    destruct (sem g <? limit) eqn:E; [discriminate|]. apply Nat.ltb_ge in E.
    assert (count isact (ws g) < k).
    { (* worker i is NotYet, so fewer than k are active *)
      assert (Hi0 : wat g i = NotYet) by (apply Hny; lia).
      pose proof (count_update isact i Spawned (ws g) ltac:(lia)) as Hc. fold (wat g i) in Hc. rewrite Hi0 in Hc.
      pose proof (count_bound isact (update i Spawned (ws g)) ltac:(intros []; simpl; lia)) as Hb.
      rewrite update_length in Hb. simpl in Hc. lia. }
    lia.
  - assert (count isact (ws g) = k).
    { rewrite (count_all isact (ws g) 1); [lia|]. intros i Hi. fold (wat g i).
      destruct (Hw i) as [E|E]; [apply Hny in E; lia|rewrite E; reflexivity]. }
    lia.
  - destruct (returned_complete g Hr Epc) as [Hrel _].
    destruct k as [|k']; [destruct (ws g); [reflexivity|discriminate]|].
    specialize (Hrel 0 ltac:(lia)). destruct (Hw 0); congruence.
Qed.

Lemma SimInv_init : SimInv [] {| sst := init; strace := []; smax := 0 |}.
Proof using.
  unfold SimInv; cbn [sst strace smax]. split; [apply r_init|]. split; [exists []; split; [constructor|reflexivity]|].
  split; [lia|]. intros j _. unfold wat, Par.init; simpl.
  destruct (Nat.lt_ge_cases j k); [rewrite nth_repeat_lt by assumption|rewrite nth_overflow by (rewrite repeat_length; lia)]; simpl; lia.
Qed.

(* what the model side of a `parallel` case prints is a theorem, not only a computation: for
   limit >= 1 and every order of opening the gates, the simulated run is a complete execution of
   the LTS, returns the sequential slice, never exceeds the limit, never returns while a gate is
   closed, starts exactly min(k,limit) algorithms while all gates are closed, and its trace is
   accepted by the acceptor *)
Theorem simulate_sound order : 1 <= limit -> NoDup order -> (forall j, In j order -> j < k) ->
  let o := simulate order in
  o_returned o = true /\ o_slots o = sequential /\ o_sat o = Nat.min k limit /\
  o_early o = false /\ o_over o = false /\ accepts (o_trace o) = true.
Proof using.
  intros Hlim Hnd Hin. unfold Par.simulate.
  set (x0 := quiesce [] {| sst := init; strace := []; smax := 0 |}).
  pose proof (quiesce_inv _ _ SimInv_init) as HI0. fold x0 in HI0.
  destruct (open_gates_inv order [] x0 HI0 Hnd ltac:(intros j Hj; split; [apply Hin; assumption|intros []]))
    as (opened' & HI1 & Hearly).
  destruct (open_gates order [] x0 false) as [x1 early] eqn:Eog. cbn [fst snd] in HI1, Hearly.
  (* gates of indices >= k do not exist: opening them changes nothing, so use seq 0 k directly *)
  assert (HIb : SimInv (seq 0 k) x1).
  { destruct HI1 as (Hr & Hp & Hm & Hg). repeat split; try assumption. intros j Hj.
    destruct (Nat.lt_ge_cases j k) as [Hjk|Hjk]; [exfalso; apply Hj, in_seq; lia|].
    destruct (reachable_inv _ Hr) as (Hlw & _). unfold wat. rewrite nth_overflow by lia. simpl. lia. }
  pose proof (quiesce_inv _ _ HIb) as (Hr2 & (ls & Hp2 & Htr) & Hm2 & _).
  assert (Hterm : forall l, step_ok (sst (quiesce (seq 0 k) x1)) l = None).
  { intros l. pose proof (quiesce_terminal _ _ HIb l) as Ht.
    destruct (reachable_inv _ Hr2) as (Hlw & _).
    destruct l as [|i|i|i|i| |]; try (apply Ht; reflexivity).
    destruct (Nat.lt_ge_cases i k) as [Hi|Hi].
    - apply Ht. simpl. apply existsb_exists. exists i. split; [apply in_seq; lia|apply Nat.eqb_refl].
    - cbn [Par.step_ok]. destruct (wst_eqb (wat (sst (quiesce (seq 0 k) x1)) i) Started) eqn:E; [|reflexivity].
      apply wst_eqb_eq in E. unfold wat in E. rewrite nth_overflow in E by lia. discriminate. }
  destruct (maximal_returns ls _ Hlim Hp2 Hterm) as [Hret _].
  destruct (returned_complete _ Hr2 Hret) as [_ Hslots].
  cbn [o_returned o_slots o_sat o_early o_over o_trace].
  split; [unfold is_returned; rewrite Hret; reflexivity|]. split; [exact Hslots|].
  split; [apply saturation, SimInv_init|]. split; [exact Hearly|].
  split; [apply Nat.ltb_ge; exact Hm2|].
  rewrite Htr, rev_involutive. eapply accepts_complete; eauto.
Qed.
End Par.
