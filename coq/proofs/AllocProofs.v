(* Proofs about model/Alloc.v: the reverse scan (ported from the design prototypes D1-D3, M1
   onto the faithful model), the bound on the number of variables (C17), the naming loop. *)
From Coq Require Import String.
From Coq Require Import List NArith ZArith Bool Arith Lia.
From AV Require Import model.Proto model.Ir model.Alloc.
Import ListNotations.
Open Scope Z_scope.

(* ------------------------------------------------------------------ vocabulary *)
Definition outs (p : iprogram) : list Z := map out_index p.
Definition reads (p : iprogram) : list Z := flat_map in_indexes p.

(* live before the first instruction of the suffix p: read in p, not defined in p *)
Definition L (p : iprogram) (k : Z) : Prop := In k (reads p) /\ ~ In k (outs p).

(* suffix form of well-formedness: outputs distinct, nothing is read before it is defined *)
Fixpoint wf (p : iprogram) : Prop :=
  match p with
  | [] => True
  | i :: rest => ~ In (out_index i) (outs rest)
                 /\ (forall x, In x (in_indexes i) -> ~ In x (outs (i :: rest)))
                 /\ wf rest
  end.

(* the property's well-formedness: outputs strictly increasing from >= 1, every input is
   element 0 or the output of an earlier instruction *)
Fixpoint wf_from (defined : list Z) (lastout : Z) (p : iprogram) : Prop :=
  match p with
  | [] => True
  | i :: r => lastout < out_index i
              /\ (forall x, In x (in_indexes i) -> In x defined)
              /\ wf_from (out_index i :: defined) (out_index i) r
  end.
Definition wf_ir (p : iprogram) : Prop := wf_from [0] 0 p.

Lemma wf_from_outs_gt : forall p d l, wf_from d l p -> forall o, In o (outs p) -> l < o.
Proof.
  induction p as [|i r IH]; intros d l H o Ho; [destruct Ho|].
  destruct H as (Hlt & _ & Hr). destruct Ho as [<-|Ho]; [exact Hlt|].
  specialize (IH _ _ Hr o Ho). lia.
Qed.

Lemma wf_from_wf : forall p d l, (forall x, In x d -> x <= l) -> wf_from d l p -> wf p.
Proof.
  induction p as [|i r IH]; intros d l Hd H; [exact I|].
  destruct H as (Hlt & Hin & Hr). cbn [wf]. split; [|split].
  - intros Ho. pose proof (wf_from_outs_gt _ _ _ Hr _ Ho). lia.
  - intros x Hx [E|Ho].
    + specialize (Hd x (Hin x Hx)). lia.
    + pose proof (wf_from_outs_gt _ _ _ Hr _ Ho). specialize (Hd x (Hin x Hx)). lia.
  - apply (IH (out_index i :: d) (out_index i)); [|exact Hr].
    intros x [<-|Hx]; [lia|]. specialize (Hd x Hx). lia.
Qed.

Lemma wf_ir_wf p : wf_ir p -> wf p.
Proof. apply wf_from_wf. intros x [<-|[]]. lia. Qed.

Lemma wf_app pre q : wf (pre ++ q) -> wf q.
Proof. induction pre as [|i pre IH]; cbn [app wf]; [auto|]. intros (_ & _ & H). auto. Qed.

(* ------------------------------------------------------------------ association lists *)
Lemma zlookup_cons_eq {A} i (v : A) m : zlookup i ((i, v) :: m) = Some v.
Proof. cbn [zlookup]. now rewrite Z.eqb_refl. Qed.
Lemma zlookup_cons_neq {A} i k (v : A) m : i <> k -> zlookup k ((i, v) :: m) = zlookup k m.
Proof. intros H. cbn [zlookup]. destruct (i =? k) eqn:E; [apply Z.eqb_eq in E; congruence|reflexivity]. Qed.

(* ------------------------------------------------------------------ scan invariant *)
(* S: indexes whose variable is held; D: indexes already defined (scanned outputs) *)
Definition GInv (S D : Z -> Prop) (a : allocation) : Prop :=
  (forall k, zlookup k (variable a) <> None <-> S k \/ D k) /\
  (forall i j vi vj, S i -> S j -> i <> j -> zlookup i (variable a) = Some vi -> zlookup j (variable a) = Some vj -> vi <> vj) /\
  NoDup (available a) /\
  (forall v k, In v (available a) -> S k -> zlookup k (variable a) <> Some v) /\
  (forall v, (v < nvars a)%nat <-> In v (available a) \/ exists k, S k /\ zlookup k (variable a) = Some v).

Lemma GInv_ext S D S' D' a : (forall k, S k <-> S' k) -> (forall k, D k <-> D' k) -> GInv S D a -> GInv S' D' a.
Proof.
  intros HS HD (H1 & H2 & H3 & H4 & H5). split; [|split; [|split; [|split]]].
  - intros k. rewrite H1, HS, HD. tauto.
  - intros i j vi vj Hi Hj. apply H2; now apply HS.
  - exact H3.
  - intros v k Hv Hk. apply H4; [assumption|now apply HS].
  - intros v. rewrite H5. split; intros [H|(k & Hk & E)]; auto; right; exists k; split; auto; now apply HS.
Qed.

Lemma allocate_new S D a i : GInv S D a -> zlookup i (variable a) = None -> ~ S i ->
  GInv (fun k => S k \/ k = i) D (allocate_index a i) /\
  (forall k v, zlookup k (variable a) = Some v -> zlookup k (variable (allocate_index a i)) = Some v).
Proof.
  intros (H1 & H2 & H3 & H4 & H5) Hn HnS. unfold allocate_index. rewrite Hn.
  assert (Hstable : forall w k v, zlookup k (variable a) = Some v -> zlookup k ((i, w) :: variable a) = Some v).
  { intros w k v E. rewrite zlookup_cons_neq; [assumption|]. intros ->. congruence. }
  destruct (available a) as [|v rest] eqn:Ea; (split; [|apply Hstable]); unfold GInv; cbn [variable available nvars].
  - split; [|split; [|split; [|split]]].
    + intros k. destruct (Z.eq_dec i k) as [->|Hne].
      * rewrite zlookup_cons_eq. split; [auto|congruence].
      * rewrite zlookup_cons_neq by assumption. rewrite H1. split; [tauto|]. intros [[H| ->]|H]; auto; congruence.
    + intros x y vx vy Hx Hy Hxy Ex Ey.
      assert (Hlt : forall k w, S k -> zlookup k (variable a) = Some w -> (w < nvars a)%nat).
      { intros k w Hk E. apply H5. right. eauto. }
      destruct (Z.eq_dec i x) as [<-|Hix]; destruct (Z.eq_dec i y) as [<-|Hiy]; try congruence.
      * rewrite zlookup_cons_eq in Ex. rewrite zlookup_cons_neq in Ey by assumption. injection Ex as <-.
        destruct Hy as [Hy| ->]; [|congruence]. specialize (Hlt y vy Hy Ey). lia.
      * rewrite zlookup_cons_eq in Ey. rewrite zlookup_cons_neq in Ex by assumption. injection Ey as <-.
        destruct Hx as [Hx| ->]; [|congruence]. specialize (Hlt x vx Hx Ex). lia.
      * rewrite zlookup_cons_neq in Ex, Ey by assumption.
        destruct Hx as [Hx| ->]; [|congruence]. destruct Hy as [Hy| ->]; [|congruence]. exact (H2 x y vx vy Hx Hy Hxy Ex Ey).
    + constructor.
    + intros v k [].
    + intros v. split.
      * intros Hv. right. destruct (Nat.eq_dec v (nvars a)) as [->|Hne].
        -- exists i. split; [auto|apply zlookup_cons_eq].
        -- assert (Hv' : (v < nvars a)%nat) by lia. apply H5 in Hv' as [[]|(k & Hk & E)].
           exists k. split; [auto|]. apply Hstable. exact E.
      * intros [[]|(k & Hk & E)]. destruct (Z.eq_dec i k) as [->|Hne].
        -- rewrite zlookup_cons_eq in E. injection E as <-. lia.
        -- rewrite zlookup_cons_neq in E by assumption. destruct Hk as [Hk| ->]; [|congruence].
           assert ((v < nvars a)%nat) by (apply H5; right; eauto). lia.
  - inversion H3 as [|? ? Hnv Hnd]; subst.
    split; [|split; [|split; [|split]]].
    + intros k. destruct (Z.eq_dec i k) as [->|Hne].
      * rewrite zlookup_cons_eq. split; [auto|congruence].
      * rewrite zlookup_cons_neq by assumption. rewrite H1. split; [tauto|]. intros [[H| ->]|H]; auto; congruence.
    + intros x y vx vy Hx Hy Hxy Ex Ey.
      destruct (Z.eq_dec i x) as [<-|Hix]; destruct (Z.eq_dec i y) as [<-|Hiy]; try congruence.
      * rewrite zlookup_cons_eq in Ex. rewrite zlookup_cons_neq in Ey by assumption. injection Ex as <-.
        destruct Hy as [Hy| ->]; [|congruence]. intros Heq. apply (H4 v y); [cbn [In]; auto|exact Hy|congruence].
      * rewrite zlookup_cons_eq in Ey. rewrite zlookup_cons_neq in Ex by assumption. injection Ey as <-.
        destruct Hx as [Hx| ->]; [|congruence]. intros Heq. apply (H4 v x); [cbn [In]; auto|exact Hx|congruence].
      * rewrite zlookup_cons_neq in Ex, Ey by assumption.
        destruct Hx as [Hx| ->]; [|congruence]. destruct Hy as [Hy| ->]; [|congruence]. exact (H2 x y vx vy Hx Hy Hxy Ex Ey).
    + exact Hnd.
    + intros w k Hw Hk. destruct (Z.eq_dec i k) as [->|Hne].
      * rewrite zlookup_cons_eq. intros E. injection E as <-. contradiction.
      * rewrite zlookup_cons_neq by assumption. destruct Hk as [Hk| ->]; [|congruence]. apply H4; cbn [In]; auto.
    + intros w. rewrite H5. split.
      * intros [[->|Hw]|(k & Hk & E)].
        -- right. exists i. split; [auto|apply zlookup_cons_eq].
        -- auto.
        -- right. exists k. split; [auto|]. apply Hstable. exact E.
      * intros [Hw|(k & Hk & E)]; [left; cbn [In]; auto|].
        destruct (Z.eq_dec i k) as [->|Hne].
        -- rewrite zlookup_cons_eq in E. injection E as <-. left; cbn [In]; auto.
        -- rewrite zlookup_cons_neq in E by assumption. destruct Hk as [Hk| ->]; [|congruence]. right; eauto.
Qed.

Lemma allocate_old a i : zlookup i (variable a) <> None -> allocate_index a i = a.
Proof. intros H. unfold allocate_index. destruct (zlookup i (variable a)); [reflexivity|congruence]. Qed.

Lemma free_inv S D a i v : GInv S D a -> S i -> zlookup i (variable a) = Some v ->
  GInv (fun k => S k /\ k <> i) (fun k => D k \/ k = i) (free a v).
Proof.
  intros (H1 & H2 & H3 & H4 & H5) Hi Ev. unfold free, GInv. cbn [variable available nvars]. split; [|split; [|split; [|split]]].
  - intros k. rewrite H1. destruct (Z.eq_dec k i) as [->|]; tauto.
  - intros x y vx vy [Hx _] [Hy _]. now apply H2.
  - constructor; [|assumption]. intros Hin. apply (H4 v i Hin Hi Ev).
  - intros w k [<-|Hw] [Hk Hki].
    + intros E. apply (H2 k i v v Hk Hi Hki E Ev). reflexivity.
    + now apply H4.
  - intros w. rewrite H5. split.
    + intros [Hw|(k & Hk & E)]; [left; cbn [In]; auto|].
      destruct (Z.eq_dec k i) as [->|Hne].
      * left. left. congruence.
      * right. exists k. auto.
    + intros [[<-|Hw]|(k & [Hk _] & E)]; [right; eauto|auto|right; eauto].
Qed.

Ltac ext H := match type of H with GInv ?s ?d ?a => apply (GInv_ext s d _ _ a); [| |exact H] end.

Definition stable (a a' : allocation) := forall k v, zlookup k (variable a) = Some v -> zlookup k (variable a') = Some v.
Lemma stable_refl a : stable a a. Proof. intros k v H; exact H. Qed.
Lemma stable_trans a b c : stable a b -> stable b c -> stable a c.
Proof. intros H1 H2 k v H. apply H2, H1, H. Qed.

Lemma allocate_any S D a i : GInv S D a -> ~ D i ->
  GInv (fun k => S k \/ k = i) D (allocate_index a i) /\ stable a (allocate_index a i).
Proof.
  intros HG HnD. destruct (zlookup i (variable a)) eqn:E.
  - rewrite allocate_old by congruence. split; [|apply stable_refl].
    assert (HS : S i). { destruct HG as (H1 & _). assert (zlookup i (variable a) <> None) by congruence. apply H1 in H. tauto. }
    ext HG; intros k; [|tauto]. split; [auto|]. intros [H| ->]; auto.
  - apply allocate_new; auto. destruct HG as (H1 & _). intros HS.
    assert (zlookup i (variable a) <> None) by (apply H1; auto). congruence.
Qed.

Lemma allocate_list xs : forall S D a, GInv S D a -> (forall x, In x xs -> ~ D x) ->
  GInv (fun k => S k \/ In k xs) D (fold_left allocate_index xs a) /\ stable a (fold_left allocate_index xs a).
Proof.
  induction xs as [|x xs IH]; intros S D a HG HD; cbn [fold_left].
  - split; [|apply stable_refl]. ext HG; intros k; cbn [In]; tauto.
  - destruct (allocate_any S D a x HG (HD x (or_introl eq_refl))) as [HG1 Hs1].
    destruct (IH _ D _ HG1 (fun y Hy => HD y (or_intror Hy))) as [HG2 Hs2].
    split; [|eapply stable_trans; eauto].
    ext HG2; intros k; cbn [In]; [|tauto].
    split; intros H; [destruct H as [[H| ->]|H]; auto | destruct H as [H|[<-|H]]; auto].
Qed.

Lemma step_inv S D a i : GInv S D a -> ~ D (out_index i) ->
  (forall x, In x (in_indexes i) -> ~ D x /\ x <> out_index i) ->
  GInv (fun k => (S k /\ k <> out_index i) \/ In k (in_indexes i)) (fun k => D k \/ k = out_index i) (scan_step a i) /\
  stable a (scan_step a i).
Proof.
  intros HG HnD Hxs. unfold scan_step, variable_of. cbn [fst snd].
  destruct (allocate_any S D a (out_index i) HG HnD) as [HG1 Hs1].
  set (a1 := allocate_index a (out_index i)) in *.
  destruct (zlookup (out_index i) (variable a1)) as [v|] eqn:Ev.
  - pose proof (free_inv _ D a1 (out_index i) v HG1 (or_intror eq_refl) Ev) as HG2.
    destruct (allocate_list (in_indexes i) _ _ (free a1 v) HG2) as [HG3 Hs3].
    { intros x Hx [Hd|Heq]; destruct (Hxs x Hx); auto. }
    split.
    + ext HG3; intros k; [|tauto]. cbn beta. split.
      * intros [[[H| ->] Hne]|H]; auto; congruence.
      * intros [[H Hne]|H]; auto.
    + eapply stable_trans; [exact Hs1|]. exact Hs3.
  - exfalso. destruct HG1 as (H1 & _). assert (zlookup (out_index i) (variable a1) <> None) by (apply H1; auto). congruence.
Qed.

Theorem scan_inv p : wf p -> GInv (L p) (fun k => In k (outs p)) (scan p).
Proof.
  induction p as [|i rest IH]; intros Hw.
  - unfold GInv, L. cbn. split; [|split; [|split; [|split]]].
    + intros k. split; [congruence|intros [[[] _]|[]]].
    + intros i j vi vj [[] _].
    + constructor.
    + intros v k [].
    + intros v. split; [lia|intros [[]|(k & [[] _] & _)]].
  - destruct Hw as (Hno & Hins & Hw). specialize (IH Hw). cbn [scan].
    destruct (step_inv _ _ (scan rest) i IH Hno) as [HG _].
    { intros x Hx. specialize (Hins x Hx). cbn [outs map In] in Hins. split; [tauto|]. intros ->. tauto. }
    ext HG; intros k; cbn beta; unfold L, reads, outs; cbn [flat_map map].
    + rewrite in_app_iff. split.
      * intros [[[Hr Hn] Hne]|H].
        -- split; [auto|]. cbn [In]. intros [E|E]; [congruence|tauto].
        -- split; [auto|]. apply Hins. exact H.
      * intros [[H|H] Hn]; [auto|]. cbn [In] in Hn. left. repeat split; auto; try tauto; try (intros ->; tauto).
    + cbn [In]. split; intros [H|H]; auto.
Qed.

Lemma allocate_stable a i : stable a (allocate_index a i).
Proof.
  unfold allocate_index. destruct (zlookup i (variable a)) eqn:E; [apply stable_refl|].
  intros k v H. assert (i <> k) by (intros ->; congruence).
  destruct (available a); cbn [variable]; rewrite zlookup_cons_neq; assumption.
Qed.
Lemma allocate_list_stable xs : forall b, stable b (fold_left allocate_index xs b).
Proof.
  induction xs as [|x xs IH]; intros b; cbn [fold_left]; [apply stable_refl|].
  eapply stable_trans; [apply allocate_stable|apply IH].
Qed.
Lemma step_stable a i : stable a (scan_step a i).
Proof.
  unfold scan_step, variable_of. cbn [fst snd]. eapply stable_trans; [apply allocate_stable|].
  eapply stable_trans; [|apply allocate_list_stable].
  intros ? ? Hx; exact Hx.
Qed.
Lemma scan_stable pre q : stable (scan q) (scan (pre ++ q)).
Proof.
  induction pre as [|i pre IH]; cbn [app scan]; [apply stable_refl|].
  eapply stable_trans; [exact IH|apply step_stable].
Qed.

(* allocation soundness: two distinct values live before the same instruction never share a variable *)
Theorem alloc_sound pre q i j : wf (pre ++ q) -> L q i -> L q j -> i <> j ->
  exists vi vj, zlookup i (variable (scan (pre ++ q))) = Some vi /\ zlookup j (variable (scan (pre ++ q))) = Some vj /\ vi <> vj.
Proof.
  intros Hw Hi Hj Hne. pose proof (scan_inv q (wf_app _ _ Hw)) as (H1 & H2 & _).
  destruct (zlookup i (variable (scan q))) as [vi|] eqn:Ei; [|exfalso; apply (proj2 (H1 i)); auto].
  destruct (zlookup j (variable (scan q))) as [vj|] eqn:Ej; [|exfalso; apply (proj2 (H1 j)); auto].
  exists vi, vj. repeat split; try (apply scan_stable; assumption).
  exact (H2 i j vi vj Hi Hj Hne Ei Ej).
Qed.

(* every variable ever created is either free or held by a live value *)
Corollary vars_accounted p : wf p -> forall v, (v < nvars (scan p))%nat <->
  In v (available (scan p)) \/ exists k, L p k /\ zlookup k (variable (scan p)) = Some v.
Proof. intros Hw. exact (proj2 (proj2 (proj2 (proj2 (scan_inv p Hw))))). Qed.

(* the variable given to an instruction's output differs from that of every other value live
   after the instruction, even when the output itself is dead *)
Lemma out_conflict i rest k : wf (i :: rest) -> L rest k -> k <> out_index i ->
  exists vk vo, zlookup k (variable (scan (i :: rest))) = Some vk /\ zlookup (out_index i) (variable (scan (i :: rest))) = Some vo /\ vk <> vo.
Proof.
  intros Hw Hk Hne. destruct Hw as (Hno & Hins & Hw).
  pose proof (scan_inv rest Hw) as HG.
  destruct (allocate_any _ _ (scan rest) (out_index i) HG Hno) as [(H1 & H2 & _) _].
  set (a1 := allocate_index (scan rest) (out_index i)) in *.
  destruct (zlookup k (variable a1)) as [vk|] eqn:Ek; [|exfalso; apply (proj2 (H1 k)); auto].
  destruct (zlookup (out_index i) (variable a1)) as [vo|] eqn:Eo; [|exfalso; apply (proj2 (H1 (out_index i))); auto].
  assert (Hst : stable a1 (scan (i :: rest))).
  { cbn [scan]. unfold scan_step, variable_of. cbn [fst snd]. fold a1. eapply stable_trans; [|apply allocate_list_stable].
    intros ? ? Hx; exact Hx. }
  exists vk, vo. repeat split; try (apply Hst; assumption).
  apply (H2 k (out_index i) vk vo); auto.
Qed.

(* ------------------------------------------------------------------ C17: number of variables *)
Definition live_list (p : iprogram) : list Z :=
  filter (fun k => negb (existsb (Z.eqb k) (outs p))) (nodup Z.eq_dec (reads p)).
Definition live_count (p : iprogram) : nat := length (live_list p).
(* the largest number of values live before some instruction *)
Fixpoint peak (p : iprogram) : nat :=
  match p with
  | [] => O
  | _ :: r => Nat.max (live_count p) (peak r)
  end.

(* every computed value other than the last is used *)
Fixpoint no_dead (p : iprogram) : Prop :=
  match p with
  | [] => True
  | i :: r => (r <> [] -> In (out_index i) (reads r)) /\ no_dead r
  end.

Lemma existsb_eqb_In k l : existsb (Z.eqb k) l = true <-> In k l.
Proof.
  rewrite existsb_exists. split.
  - intros (x & Hx & E). apply Z.eqb_eq in E. now subst.
  - intros H. exists k. split; [exact H|apply Z.eqb_refl].
Qed.

Lemma live_list_spec p k : In k (live_list p) <-> L p k.
Proof.
  unfold live_list, L. rewrite filter_In, nodup_In, negb_true_iff.
  rewrite <- (existsb_eqb_In k (outs p)). destruct (existsb (Z.eqb k) (outs p)); intuition congruence.
Qed.

Lemma live_list_NoDup p : NoDup (live_list p).
Proof. unfold live_list. apply NoDup_filter, NoDup_nodup. Qed.

Lemma nvars_le_live p : wf p -> available (scan p) = [] -> (nvars (scan p) <= live_count p)%nat.
Proof.
  intros Hw Ha. pose proof (vars_accounted p Hw) as H. rewrite Ha in H.
  set (V := fun k => match zlookup k (variable (scan p)) with Some v => v | None => O end).
  assert (Hincl : incl (seq 0 (nvars (scan p))) (map V (live_list p))).
  { intros v Hv. apply in_seq in Hv. destruct (proj1 (H v)) as [[]|(k & Hk & E)]; [lia|].
    apply in_map_iff. exists k. split; [unfold V; now rewrite E|now apply live_list_spec]. }
  pose proof (NoDup_incl_length (seq_NoDup _ _) Hincl) as Hlen.
  rewrite seq_length, map_length in Hlen. exact Hlen.
Qed.

Lemma allocate_empty_stays a i : available a = [] -> available (allocate_index a i) = [].
Proof.
  intros Ha. unfold allocate_index. destruct (zlookup i (variable a)); [exact Ha|]. rewrite Ha. reflexivity.
Qed.

Lemma allocate_list_empty_stays xs : forall a, available a = [] -> available (fold_left allocate_index xs a) = [].
Proof.
  induction xs as [|x xs IH]; intros a Ha; cbn [fold_left]; [exact Ha|]. apply IH, allocate_empty_stays, Ha.
Qed.

Lemma allocate_nvars a i : nvars (allocate_index a i) = nvars a \/ available (allocate_index a i) = [].
Proof.
  unfold allocate_index. destruct (zlookup i (variable a)); [now left|].
  destruct (available a); [now right|now left].
Qed.

Lemma allocate_list_nvars xs : forall a,
  nvars (fold_left allocate_index xs a) = nvars a \/ available (fold_left allocate_index xs a) = [].
Proof.
  induction xs as [|x xs IH]; intros a; cbn [fold_left]; [now left|].
  destruct (allocate_nvars a x) as [E|E].
  - destruct (IH (allocate_index a x)) as [E2|E2]; [left; congruence|now right].
  - right. apply allocate_list_empty_stays, E.
Qed.

Lemma in_indexes_nonempty i : in_indexes i <> [].
Proof. unfold in_indexes. destruct (iopn i); discriminate. Qed.

Theorem nvars_le_peak p : wf p -> no_dead p -> p <> [] -> (nvars (scan p) <= peak p)%nat.
Proof.
  induction p as [|i r IH]; intros Hw Hnd Hne; [congruence|].
  cbn [peak]. destruct r as [|i2 r2].
  - (* the last instruction: one variable for its output, handed on to its first input *)
    cbn [scan]. unfold scan_step, variable_of. cbn [fst snd].
    set (a2 := free _ _).
    assert (Hn2 : nvars a2 = 1%nat) by reflexivity.
    destruct (allocate_list_nvars (in_indexes i) a2) as [E|E].
    + rewrite E, Hn2. assert (1 <= live_count [i])%nat; [|lia].
      destruct (in_indexes i) as [|x xs] eqn:Ex; [exfalso; now apply (in_indexes_nonempty i)|].
      assert (Hx : In x (live_list [i])).
      { apply live_list_spec. destruct Hw as (_ & Hins & _). split.
        - unfold reads. cbn [flat_map]. rewrite Ex, app_nil_r. now left.
        - apply Hins. rewrite Ex. now left. }
      unfold live_count. destruct (live_list [i]); [destruct Hx|cbn [length]; lia].
    + pose proof (nvars_le_live [i] Hw) as H. cbn [scan] in H. unfold scan_step, variable_of in H. cbn [fst snd] in H.
      specialize (H E). fold a2 in H. lia.
  - destruct Hnd as (Hused & Hnd). destruct Hw as (Hno & Hins & Hw).
    specialize (IH Hw Hnd ltac:(discriminate)).
    set (r := i2 :: r2) in *.
    assert (HL : L r (out_index i)) by (split; [apply Hused; discriminate|exact Hno]).
    pose proof (scan_inv r Hw) as (H1 & _).
    assert (Hal : allocate_index (scan r) (out_index i) = scan r) by (apply allocate_old, H1; auto).
    cbn [scan]. unfold scan_step, variable_of. cbn [fst snd]. rewrite Hal.
    set (a2 := free _ _).
    assert (Hn2 : nvars a2 = nvars (scan r)) by reflexivity.
    destruct (allocate_list_nvars (in_indexes i) a2) as [E|E].
    + rewrite E, Hn2. lia.
    + pose proof (nvars_le_live (i :: r) (conj Hno (conj Hins Hw))) as H.
      cbn [scan] in H. unfold scan_step, variable_of in H. cbn [fst snd] in H. rewrite Hal in H.
      specialize (H E). fold a2 in H. lia.
Qed.

(* ------------------------------------------------------------------ variables are below nvars *)
Definition bounded (a : allocation) : Prop :=
  (forall k v, zlookup k (variable a) = Some v -> (v < nvars a)%nat) /\
  (forall v, In v (available a) -> (v < nvars a)%nat).

Lemma allocate_bounded a i : bounded a -> bounded (allocate_index a i).
Proof.
  intros [H1 H2]. unfold allocate_index. destruct (zlookup i (variable a)) eqn:E; [split; assumption|].
  destruct (available a) as [|v rest] eqn:Ea; split; cbn [variable available nvars].
  - intros k w. destruct (Z.eq_dec i k) as [->|Hne].
    + rewrite zlookup_cons_eq. intros Ew. injection Ew as <-. lia.
    + rewrite zlookup_cons_neq by assumption. intros Ew. specialize (H1 _ _ Ew). lia.
  - intros w [].
  - intros k w. destruct (Z.eq_dec i k) as [->|Hne].
    + rewrite zlookup_cons_eq. intros Ew. injection Ew as <-. apply H2. now left.
    + rewrite zlookup_cons_neq by assumption. apply H1.
  - intros w Hw. apply H2. now right.
Qed.

Lemma allocate_list_bounded xs : forall a, bounded a -> bounded (fold_left allocate_index xs a).
Proof. induction xs as [|x xs IH]; intros a Ha; cbn [fold_left]; [exact Ha|]. apply IH, allocate_bounded, Ha. Qed.

Lemma allocate_has a i : zlookup i (variable (allocate_index a i)) <> None.
Proof.
  unfold allocate_index. destruct (zlookup i (variable a)) eqn:E; [congruence|].
  destruct (available a); cbn [variable]; rewrite zlookup_cons_eq; discriminate.
Qed.

Lemma scan_bounded p : bounded (scan p).
Proof.
  induction p as [|i r IH]; [split; [intros k v E; discriminate E|intros v []]|].
  cbn [scan]. unfold scan_step, variable_of. cbn [fst snd].
  apply allocate_list_bounded.
  pose proof (allocate_bounded _ (out_index i) IH) as [H1 H2].
  split; cbn [free variable available nvars]; [exact H1|].
  intros v [<-|Hv]; [|apply H2, Hv].
  pose proof (allocate_has (scan r) (out_index i)) as Hh.
  destruct (zlookup (out_index i) (variable (allocate_index (scan r) (out_index i)))) as [w|] eqn:E; [|congruence].
  apply (H1 _ _ E).
Qed.

(* ------------------------------------------------------------------ the naming loop *)
Definition V (a : allocation) (k : Z) : nat :=
  match zlookup k (variable a) with Some v => v | None => O end.

Lemma variable_of_old a k : zlookup k (variable a) <> None -> variable_of a k = (a, V a k).
Proof. intros H. unfold variable_of. rewrite (allocate_old a k H). reflexivity. Qed.

Lemma nlookup_cons_eq {A} i (v : A) m : nlookup i ((i, v) :: m) = Some v.
Proof. cbn [nlookup]. now rewrite Nat.eqb_refl. Qed.
Lemma nlookup_cons_neq {A} i k (v : A) m : i <> k -> nlookup k ((i, v) :: m) = nlookup k m.
Proof. intros H. cbn [nlookup]. destruct (Nat.eqb i k) eqn:E; [apply Nat.eqb_eq in E; congruence|reflexivity]. Qed.

Lemma nlookup_In {A} k (m : list (nat * A)) n : nlookup k m = Some n -> In (k, n) m.
Proof.
  induction m as [|[k' n'] m IH]; cbn [nlookup]; [discriminate|].
  destruct (Nat.eqb k' k) eqn:E.
  - apply Nat.eqb_eq in E. intros Es. injection Es as <-. subst. now left.
  - intros H. right. auto.
Qed.

Lemma nlookup_None {A} k (m : list (nat * A)) : nlookup k m = None -> ~ In k (map fst m).
Proof.
  induction m as [|[k' n'] m IH]; cbn [nlookup map fst In]; [tauto|].
  destruct (Nat.eqb k' k) eqn:E; [discriminate|].
  apply Nat.eqb_neq in E. intros H [E2|H2]; [congruence|]. now apply IH.
Qed.

Lemma In_nlookup {A} k n (m : list (nat * A)) : NoDup (map fst m) -> In (k, n) m -> nlookup k m = Some n.
Proof.
  induction m as [|[k' n'] m IH]; cbn [map fst In]; [tauto|].
  intros Hnd [E|H].
  - injection E as -> ->. apply nlookup_cons_eq.
  - inversion Hnd as [|? ? Hni Hnd']; subst.
    rewrite nlookup_cons_neq; [now apply IH|].
    intros ->. apply Hni. apply in_map_iff. exists (k, n). split; [reflexivity|exact H].
Qed.

Section Naming.
Variable cfg : alloc_cfg.
Variable lir : Z.
Variable outv : nat.
Variable a : allocation.

(* which class of the switch an index falls into *)
Definition is_input (k : Z) : bool := k =? 0.
Definition is_output (k : Z) : bool := negb (k =? 0) && ((V a k =? outv)%nat && (lir <=? k)).
Definition is_temp (k : Z) : bool := negb (k =? 0) && negb ((V a k =? outv)%nat && (lir <=? k)).

(* the identifier of index k given the variable -> temporary map *)
Definition nm_of (vn : list (nat * list N)) (k : Z) : list N :=
  if k =? 0 then cfg_in cfg
  else if (V a k =? outv)%nat && (lir <=? k) then cfg_out cfg
  else match nlookup (V a k) vn with Some n => n | None => [] end.

Record NInv (done : list Z) (s : naming) : Prop := mkNInv {
  ni_alloc : nalloc s = a;
  ni_temps : temps s = map (tmpname cfg) (seq 0 (length (temps s)));
  ni_vals : map snd (vname s) = rev (temps s);
  ni_keys : NoDup (map fst (vname s));
  ni_done : forall k, In k done -> zlookup k (opname s) = Some (nm_of (vname s) k)
                                   /\ (is_temp k = true -> nlookup (V a k) (vname s) <> None);
  ni_only : forall k, zlookup k (opname s) <> None -> In k done;
  ni_used : forall v, In v (map fst (vname s)) -> exists k, In k done /\ is_temp k = true /\ V a k = v }.

Lemma NInv_init : NInv [] (mkNaming a [] [] []).
Proof using.
  constructor; cbn; auto; try tauto; try constructor; intros k H; congruence.
Qed.

Lemma nm_of_mono vn v n k : nlookup v vn = None ->
  (is_temp k = true -> nlookup (V a k) vn <> None) -> nm_of ((v, n) :: vn) k = nm_of vn k.
Proof using.
  intros Hv Hk. unfold nm_of, is_temp in *. destruct (k =? 0); [reflexivity|].
  destruct ((V a k =? outv)%nat && (lir <=? k)); [reflexivity|].
  rewrite nlookup_cons_neq; [reflexivity|]. intros ->. apply Hk; auto.
Qed.

Lemma name_step_inv done s k : NInv done s -> zlookup k (variable a) <> None ->
  NInv (k :: done) (name_step cfg lir outv s k).
Proof using.
  intros [Ha Ht Hv Hk Hd Ho Hu] Hal. unfold name_step. rewrite Ha, (variable_of_old a k Hal). cbn [fst snd].
  assert (Hdone' : forall nm j, In j done -> j <> k ->
            zlookup j ((k, nm) :: opname s) = Some (nm_of (vname s) j)).
  { intros nm j Hj Hjk. rewrite zlookup_cons_neq by congruence. apply Hd, Hj. }
  destruct (k =? 0) eqn:E0.
  { (* input *)
    constructor; cbn [nalloc temps vname opname]; auto.
    - intros j [<-|Hj].
      + rewrite zlookup_cons_eq. split; [unfold nm_of; now rewrite E0|]. unfold is_temp. rewrite E0. discriminate.
      + destruct (Z.eq_dec j k) as [->|Hne].
        * rewrite zlookup_cons_eq. split; [unfold nm_of; now rewrite E0|apply Hd, Hj].
        * split; [now apply Hdone'|apply Hd, Hj].
    - intros j. destruct (Z.eq_dec k j) as [->|Hne]; [left; reflexivity|].
      rewrite zlookup_cons_neq by assumption. intros H. right. now apply Ho.
    - intros v Hin. destruct (Hu v Hin) as (j & Hj & H2). exists j. split; [now right|exact H2]. }
  destruct ((V a k =? outv)%nat && (lir <=? k)) eqn:E1.
  { (* output *)
    constructor; cbn [nalloc temps vname opname]; auto.
    - intros j [<-|Hj].
      + rewrite zlookup_cons_eq. split; [unfold nm_of; now rewrite E0, E1|]. unfold is_temp. rewrite E0, E1. discriminate.
      + destruct (Z.eq_dec j k) as [->|Hne].
        * rewrite zlookup_cons_eq. split; [unfold nm_of; now rewrite E0, E1|apply Hd, Hj].
        * split; [now apply Hdone'|apply Hd, Hj].
    - intros j. destruct (Z.eq_dec k j) as [->|Hne]; [left; reflexivity|].
      rewrite zlookup_cons_neq by assumption. intros H. right. now apply Ho.
    - intros v Hin. destruct (Hu v Hin) as (j & Hj & H2). exists j. split; [now right|exact H2]. }
  assert (Htk : is_temp k = true) by (unfold is_temp; now rewrite E0, E1).
  destruct (nlookup (V a k) (vname s)) as [nm|] eqn:El.
  { (* variable already named *)
    constructor; cbn [nalloc temps vname opname]; auto.
    - intros j [<-|Hj].
      + rewrite zlookup_cons_eq. split; [unfold nm_of; now rewrite E0, E1, El|]. intros _. congruence.
      + destruct (Z.eq_dec j k) as [->|Hne].
        * rewrite zlookup_cons_eq. split; [unfold nm_of; now rewrite E0, E1, El|apply Hd, Hj].
        * split; [now apply Hdone'|apply Hd, Hj].
    - intros j. destruct (Z.eq_dec k j) as [->|Hne]; [left; reflexivity|].
      rewrite zlookup_cons_neq by assumption. intros H. right. now apply Ho.
    - intros v Hin. destruct (Hu v Hin) as (j & Hj & H2). exists j. split; [now right|exact H2]. }
  (* a new temporary *)
  set (nm := tmpname cfg (length (temps s))).
  assert (Hmono : forall j, In j done -> nm_of ((V a k, nm) :: vname s) j = nm_of (vname s) j).
  { intros j Hj. apply nm_of_mono; [exact El|apply Hd, Hj]. }
  constructor; cbn [nalloc temps vname opname]; auto.
  - rewrite app_length. cbn [length]. rewrite Nat.add_1_r, seq_S, map_app. cbn [map]. rewrite <- Ht. reflexivity.
  - cbn [map snd]. rewrite rev_app_distr. cbn [rev app]. now rewrite Hv.
  - cbn [map fst]. constructor; [|exact Hk]. apply nlookup_None, El.
  - intros j [<-|Hj].
    + rewrite zlookup_cons_eq. split.
      * unfold nm_of. rewrite E0, E1, nlookup_cons_eq. reflexivity.
      * intros _. rewrite nlookup_cons_eq. discriminate.
    + assert (Hlk : is_temp j = true -> nlookup (V a j) ((V a k, nm) :: vname s) <> None).
      { intros Hj2. destruct (Nat.eq_dec (V a k) (V a j)) as [E|E].
        - rewrite E, nlookup_cons_eq. discriminate.
        - rewrite nlookup_cons_neq by assumption. now apply Hd. }
      destruct (Z.eq_dec j k) as [->|Hne].
      * rewrite zlookup_cons_eq. split; [|exact Hlk]. unfold nm_of. rewrite E0, E1, nlookup_cons_eq. reflexivity.
      * rewrite zlookup_cons_neq by congruence. rewrite Hmono by assumption. split; [apply Hd, Hj|exact Hlk].
  - intros j. destruct (Z.eq_dec k j) as [->|Hne]; [left; reflexivity|].
    rewrite zlookup_cons_neq by assumption. intros H. right. now apply Ho.
  - cbn [map fst]. intros v [<-|Hin].
    + exists k. split; [now left|split; [exact Htk|reflexivity]].
    + destruct (Hu v Hin) as (j & Hj & H2). exists j. split; [now right|exact H2].
Qed.

Lemma naming_fold idx : forall done s, NInv done s -> (forall k, In k idx -> zlookup k (variable a) <> None) ->
  NInv (rev idx ++ done) (fold_left (name_step cfg lir outv) idx s).
Proof using.
  induction idx as [|k idx IH]; intros done s Hs Hal; cbn [fold_left rev app]; [exact Hs|].
  rewrite <- app_assoc. cbn [app]. apply IH.
  - apply name_step_inv; [exact Hs|apply Hal; now left].
  - intros j Hj. apply Hal. now right.
Qed.

End Naming.

(* ------------------------------------------------------------------ CanonicalizeOperands, Indexes *)
Lemma str_eqb_eq a : forall b, str_eqb a b = true <-> a = b.
Proof.
  induction a as [|x a IH]; intros [|y b]; cbn [str_eqb]; try (split; [discriminate|congruence]); [tauto|].
  rewrite andb_true_iff, N.eqb_eq, IH. split; [intros [-> ->]; reflexivity|intros E; injection E; auto].
Qed.

Lemma zlookup_zset_eq {A} k (v : A) m : zlookup k (zset k v m) = Some v.
Proof.
  induction m as [|[k' v'] m IH]; cbn [zset zlookup]; [now rewrite Z.eqb_refl|].
  destruct (k' =? k) eqn:E; cbn [zlookup]; [now rewrite Z.eqb_refl|now rewrite E].
Qed.
Lemma zlookup_zset_neq {A} j k (v : A) m : j <> k -> zlookup j (zset k v m) = zlookup j m.
Proof.
  intros Hne. induction m as [|[k' v'] m IH]; cbn [zset zlookup].
  - destruct (k =? j) eqn:E; [apply Z.eqb_eq in E; congruence|reflexivity].
  - destruct (k' =? k) eqn:E; cbn [zlookup].
    + apply Z.eqb_eq in E. subst k'. destruct (k =? j) eqn:E2; [apply Z.eqb_eq in E2; congruence|reflexivity].
    + destruct (k' =? j); [reflexivity|exact IH].
Qed.

Lemma zlookup_keys {A} k (m : list (Z * A)) : zlookup k m <> None <-> In k (map fst m).
Proof.
  induction m as [|[k' v'] m IH]; cbn [zlookup map fst In]; [tauto|].
  destruct (k' =? k) eqn:E.
  - apply Z.eqb_eq in E. split; [auto|discriminate].
  - apply Z.eqb_neq in E. rewrite IH. tauto.
Qed.

Definition operands (i : instr) : list operand := inputs (iopn i) ++ [iout i].
Definition all_operands (p : iprogram) : list operand := flat_map operands p.
(* no index carries two different identifiers (unnamed operands are always consistent) *)
Definition consistent (nmap : Z -> list N) (p : iprogram) : Prop :=
  forall o, In o (all_operands p) -> oname o = [] \/ oname o = nmap (oindex o).
Definition MInv (nmap : Z -> list N) (m : list (Z * list N)) : Prop :=
  forall k n, zlookup k m = Some n -> n = [] \/ n = nmap k.

Lemma canon_operand_ok nmap m o : MInv nmap m -> (oname o = [] \/ oname o = nmap (oindex o)) ->
  exists m', canon_operand m o = Ok m' /\ MInv nmap m' /\
             (forall k, zlookup k m' <> None <-> zlookup k m <> None \/ k = oindex o).
Proof.
  intros HM Ho. unfold canon_operand. destruct (zlookup (oindex o) m) as [ex|] eqn:El.
  - assert (Hex : ex = [] \/ ex = nmap (oindex o)) by (apply (HM _ _ El)).
    assert (Hkeys : forall k, zlookup k m <> None <-> zlookup k m <> None \/ k = oindex o).
    { intros k. split; [auto|]. intros [H| ->]; [exact H|congruence]. }
    destruct (is_empty ex) eqn:Ee; cbn [negb andb].
    + destruct (is_empty (oname o)) eqn:En; cbn [negb].
      * exists m. auto.
      * exists (zset (oindex o) (oname o) m). split; [reflexivity|]. split.
        -- intros k n. destruct (Z.eq_dec k (oindex o)) as [->|Hne].
           ++ rewrite zlookup_zset_eq. intros E. injection E as <-. exact Ho.
           ++ rewrite zlookup_zset_neq by assumption. apply HM.
        -- intros k. destruct (Z.eq_dec k (oindex o)) as [->|Hne].
           ++ rewrite zlookup_zset_eq. split; [auto|discriminate].
           ++ rewrite zlookup_zset_neq by assumption. tauto.
    + destruct (is_empty (oname o)) eqn:En; cbn [negb andb].
      * exists m. auto.
      * assert (Heq : ex = oname o).
        { destruct Hex as [-> | ->]; [discriminate Ee|]. destruct Ho as [E|E]; [rewrite E in En; discriminate En|now rewrite E]. }
        assert (Hs : str_eqb ex (oname o) = true) by (apply str_eqb_eq, Heq). rewrite Hs. cbn [negb].
        exists (zset (oindex o) (oname o) m). split; [reflexivity|]. split.
        -- intros k n. destruct (Z.eq_dec k (oindex o)) as [->|Hne].
           ++ rewrite zlookup_zset_eq. intros E. injection E as <-. exact Ho.
           ++ rewrite zlookup_zset_neq by assumption. apply HM.
        -- intros k. destruct (Z.eq_dec k (oindex o)) as [->|Hne].
           ++ rewrite zlookup_zset_eq. split; [auto|discriminate].
           ++ rewrite zlookup_zset_neq by assumption. tauto.
  - exists ((oindex o, oname o) :: m). split; [reflexivity|]. split.
    + intros k n. destruct (Z.eq_dec (oindex o) k) as [<-|Hne].
      * rewrite zlookup_cons_eq. intros E. injection E as <-. exact Ho.
      * rewrite zlookup_cons_neq by assumption. apply HM.
    + intros k. destruct (Z.eq_dec (oindex o) k) as [<-|Hne].
      * rewrite zlookup_cons_eq. split; [auto|discriminate].
      * rewrite zlookup_cons_neq by assumption. split; [auto|]. intros [H|E]; [exact H|congruence].
Qed.

Lemma canon_operands_ok nmap os : forall m, MInv nmap m ->
  (forall o, In o os -> oname o = [] \/ oname o = nmap (oindex o)) ->
  exists m', canon_operands m os = Ok m' /\ MInv nmap m' /\
             (forall k, zlookup k m' <> None <-> zlookup k m <> None \/ In k (map oindex os)).
Proof.
  induction os as [|o os IH]; intros m HM Hos; cbn [canon_operands].
  - exists m. split; [reflexivity|]. split; [exact HM|]. intros k. cbn. tauto.
  - destruct (canon_operand_ok nmap m o HM (Hos o (or_introl eq_refl))) as (m1 & E1 & HM1 & K1).
    rewrite E1. cbn [obind].
    destruct (IH m1 HM1 (fun o' H => Hos o' (or_intror H))) as (m2 & E2 & HM2 & K2).
    exists m2. split; [exact E2|]. split; [exact HM2|].
    intros k. rewrite K2, K1. cbn [map In]. intuition.
Qed.

Lemma consistent_cons nmap i r : consistent nmap (i :: r) ->
  (forall o, In o (operands i) -> oname o = [] \/ oname o = nmap (oindex o)) /\ consistent nmap r.
Proof.
  intros H. split; intros o Ho; apply H; unfold all_operands; cbn [flat_map]; apply in_or_app; auto.
Qed.

Lemma canonicalize_ok nmap : forall p d l m, wf_from d l p -> (forall x, In x d -> x <= l) ->
  consistent nmap p -> MInv nmap m -> (forall k, zlookup k m <> None -> k <= l) ->
  exists m', canonicalize m p = Ok (m', map (fun _ => true) p) /\
             (forall k, zlookup k m' <> None <-> zlookup k m <> None \/ In k (reads p) \/ In k (outs p)).
Proof.
  induction p as [|i r IH]; intros d l m Hwf Hd Hc HM Hb; cbn [canonicalize].
  - exists m. split; [reflexivity|]. intros k. cbn. tauto.
  - destruct Hwf as (Hlt & Hin & Hr). destruct (consistent_cons _ _ _ Hc) as [Hci Hcr].
    destruct (canon_operands_ok nmap (inputs (iopn i)) m HM) as (m1 & E1 & HM1 & K1).
    { intros o Ho. apply Hci. unfold operands. apply in_or_app. now left. }
    rewrite E1. cbn [obind].
    assert (Hfresh : zlookup (out_index i) m1 = None).
    { destruct (zlookup (out_index i) m1) eqn:E; [|reflexivity]. exfalso.
      assert (H : zlookup (out_index i) m1 <> None) by congruence. apply K1 in H as [H|H].
      - specialize (Hb _ H). lia.
      - specialize (Hd _ (Hin _ H)). lia. }
    rewrite Hfresh.
    destruct (canon_operand_ok nmap m1 (iout i) HM1) as (m2 & E2 & HM2 & K2).
    { apply Hci. unfold operands. apply in_or_app. right. now left. }
    rewrite E2. cbn [obind].
    destruct (IH (out_index i :: d) (out_index i) m2 Hr) as (m3 & E3 & K3); auto.
    { intros x [<-|Hx]; [lia|]. specialize (Hd x Hx). lia. }
    { intros k Hk. apply K2 in Hk as [Hk| ->]; [|unfold out_index; lia].
      apply K1 in Hk as [Hk|Hk]; [specialize (Hb _ Hk); lia|specialize (Hd _ (Hin _ Hk)); lia]. }
    rewrite E3. cbn [obind fst snd map]. exists m3. split; [reflexivity|].
    intros k. rewrite K3, K2, K1. unfold reads, outs. cbn [flat_map map In]. rewrite in_app_iff.
    unfold in_indexes, out_index. intuition.
Qed.

Lemma insert_sorted_In x l k : In k (insert_sorted x l) <-> k = x \/ In k l.
Proof.
  induction l as [|y t IH]; cbn [insert_sorted In]; [intuition|].
  destruct (x <? y); [cbn [In]; intuition|].
  destruct (x =? y) eqn:E; [apply Z.eqb_eq in E; subst; cbn [In]; intuition|].
  cbn [In]. rewrite IH. intuition.
Qed.

Lemma sort_indexes_In l k : In k (sort_indexes l) <-> In k l.
Proof.
  induction l as [|x l IH]; cbn [sort_indexes fold_right In]; [tauto|].
  fold (sort_indexes l). rewrite insert_sorted_In, IH. intuition.
Qed.

Definition rename_instr (names : list (Z * list N)) (i : instr) : instr :=
  mkInstr (rename_operand names (iout i)) (rename_op names (iopn i)).

Lemma rename_all_true names p : rename names p (map (fun _ => true) p) = map (rename_instr names) p.
Proof. induction p as [|i r IH]; cbn [rename map]; [reflexivity|]. now rewrite IH. Qed.

(* shape of the result for well-formed, consistently named programs *)
Theorem allocate_shape cfg p lst nmap : wf_ir p -> last_instr p = Some lst -> consistent nmap p ->
  exists idx, (forall k, In k idx <-> In k (reads p) \/ In k (outs p)) /\
    allocate cfg p = Ok (map (rename_instr (opname (run_naming cfg p idx lst))) p, temps (run_naming cfg p idx lst)).
Proof.
  intros Hwf Hl Hc. unfold allocate. rewrite Hl.
  destruct (canonicalize_ok nmap p [0] 0 [] Hwf) as (m & E & K); auto.
  { intros x [<-|[]]. lia. }
  { intros k n H. discriminate H. }
  { intros k H. cbn in H. congruence. }
  rewrite E. cbn [obind fst snd].
  exists (sort_indexes (map fst m)). split.
  - intros k. rewrite sort_indexes_In, <- zlookup_keys, K. cbn [zlookup]. intuition congruence.
  - rewrite rename_all_true. reflexivity.
Qed.

(* ------------------------------------------------------------------ the names of an allocated program *)
Lemma scan_allocated p k : wf p -> In k (reads p) \/ In k (outs p) -> zlookup k (variable (scan p)) <> None.
Proof.
  intros Hw H. destruct (scan_inv p Hw) as (H1 & _). apply H1.
  destruct (in_dec Z.eq_dec k (outs p)) as [Ho|Ho]; [now right|].
  destruct H as [H|H]; [left; split; assumption|now right].
Qed.

Lemma run_naming_inv cfg p idx lst : wf p -> In (out_index lst) (outs p) ->
  (forall k, In k idx -> In k (reads p) \/ In k (outs p)) ->
  NInv cfg (lastinputread p) (V (scan p) (out_index lst)) (scan p) (rev idx) (run_naming cfg p idx lst).
Proof.
  intros Hw Hl Hidx. unfold run_naming.
  rewrite (variable_of_old (scan p) (out_index lst)) by (apply scan_allocated; auto). cbn [fst snd].
  rewrite <- (app_nil_r (rev idx)). apply naming_fold; [apply NInv_init|].
  intros k Hk. apply scan_allocated; auto.
Qed.

Record cfg_ok (cfg : alloc_cfg) : Prop := mkCfgOk {
  ck_in : cfg_in cfg <> [];
  ck_out : cfg_out cfg <> [];
  ck_io : cfg_in cfg <> cfg_out cfg;
  ck_tin : forall n, tmpname cfg n <> cfg_in cfg;
  ck_tout : forall n, tmpname cfg n <> cfg_out cfg;
  ck_inj : forall n m, tmpname cfg n = tmpname cfg m -> n = m }.

Lemma NoDup_map_inj {A B} (f : A -> B) l : (forall x y, f x = f y -> x = y) -> NoDup l -> NoDup (map f l).
Proof.
  intros Hf Hnd. induction Hnd as [|x l Hx Hnd IH]; cbn [map]; constructor; [|exact IH].
  intros Hin. apply in_map_iff in Hin as (y & E & Hy). apply Hf in E. subst. contradiction.
Qed.

Lemma NoDup_rev {A} (l : list A) : NoDup l -> NoDup (rev l).
Proof.
  induction l as [|x l IH]; intros H; cbn [rev]; [constructor|].
  inversion H as [|? ? Hx Hl]; subst.
  assert (Hp : forall l1 : list A, NoDup l1 -> ~ In x l1 -> NoDup (l1 ++ [x])).
  { induction l1 as [|y l1 IH1]; intros Hn Hni; cbn [app]; [constructor; [intros []|constructor]|].
    inversion Hn as [|? ? Hy Hl1]; subst. constructor.
    - rewrite in_app_iff. cbn [In]. intros [Hin|[E|[]]]; [contradiction|]. apply Hni. now left.
    - apply IH1; [exact Hl1|]. intros Hin. apply Hni. now right. }
  apply Hp; [apply IH, Hl|]. rewrite <- in_rev. exact Hx.
Qed.

Lemma nlookup_inj {A} (m : list (nat * A)) v1 v2 n : NoDup (map snd m) ->
  nlookup v1 m = Some n -> nlookup v2 m = Some n -> v1 = v2.
Proof.
  induction m as [|[k x] m IH]; cbn [nlookup map snd]; [discriminate|].
  intros Hnd. inversion Hnd as [|? ? Hx Hm]; subst.
  destruct (Nat.eqb k v1) eqn:E1; destruct (Nat.eqb k v2) eqn:E2.
  - apply Nat.eqb_eq in E1, E2. congruence.
  - intros Ex H2. injection Ex as ->. exfalso. apply Hx. apply in_map_iff. exists (v2, n). split; [reflexivity|apply nlookup_In, H2].
  - intros H1 Ex. injection Ex as ->. exfalso. apply Hx. apply in_map_iff. exists (v1, n). split; [reflexivity|apply nlookup_In, H1].
  - apply IH, Hm.
Qed.

Lemma pbf_acc_nonempty b f : forall q acc, acc <> [] -> print_base_fuel b f q acc <> [].
Proof.
  induction f as [|f IHf]; intros q acc Hacc; cbn [print_base_fuel]; [exact Hacc|].
  destruct (q / b =? 0)%N; [discriminate|]. apply IHf. discriminate.
Qed.

Lemma pbf_nonempty b f n acc : print_base_fuel b (S f) n acc <> [].
Proof. cbn [print_base_fuel]. destruct (n / b =? 0)%N; [discriminate|]. apply pbf_acc_nonempty. discriminate. Qed.

Lemma render_digits_nonempty v n : render_digits v n <> [].
Proof.
  destruct v; unfold render_digits, print_decN, print_hexN, print_binN; try apply pbf_nonempty.
  intros E. apply map_eq_nil in E. revert E. apply pbf_nonempty.
Qed.

Lemma tmpname_nonempty cfg t : tmpname cfg t <> [].
Proof.
  unfold tmpname, render_fmt, pad. intros E.
  apply app_eq_nil in E as [_ E]. apply app_eq_nil in E as [E _]. apply app_eq_nil in E as [_ E].
  revert E. apply render_digits_nonempty.
Qed.

Section Names.
Variable cfg : alloc_cfg.
Hypothesis Hcfg : cfg_ok cfg.
Variables (lir : Z) (outv : nat) (a : allocation) (done : list Z) (s : naming).
Hypothesis HN : NInv cfg lir outv a done s.

Let nm := nm_of cfg lir outv a (vname s).

Lemma temps_NoDup : NoDup (temps s).
Proof using Hcfg HN.
  rewrite (ni_temps _ _ _ _ _ _ HN). apply NoDup_map_inj; [apply (ck_inj _ Hcfg)|apply seq_NoDup].
Qed.

Lemma temps_are_tmpnames n : In n (temps s) -> exists t, n = tmpname cfg t.
Proof using HN.
  rewrite (ni_temps _ _ _ _ _ _ HN). intros H. apply in_map_iff in H as (t & E & _). eauto.
Qed.

Lemma vname_in_temps v n : nlookup v (vname s) = Some n -> In n (temps s).
Proof using HN.
  intros H. apply nlookup_In in H. apply in_rev. rewrite <- (ni_vals _ _ _ _ _ _ HN).
  apply in_map_iff. exists (v, n). auto.
Qed.

(* the three classes of the switch *)
Lemma nm_class k : In k done ->
  (k = 0 /\ nm k = cfg_in cfg) \/
  (k <> 0 /\ V a k = outv /\ lir <= k /\ nm k = cfg_out cfg) \/
  (k <> 0 /\ ~ (V a k = outv /\ lir <= k) /\ nlookup (V a k) (vname s) = Some (nm k) /\ In (nm k) (temps s)).
Proof using HN.
  intros Hk. destruct (ni_done _ _ _ _ _ _ HN k Hk) as [_ Ht]. unfold nm, nm_of, is_temp in *.
  destruct (k =? 0) eqn:E0; [apply Z.eqb_eq in E0; now left|apply Z.eqb_neq in E0; right].
  destruct ((V a k =? outv)%nat && (lir <=? k)) eqn:E1.
  - apply andb_true_iff in E1 as [Ea Eb]. apply Nat.eqb_eq in Ea. apply Z.leb_le in Eb. left. auto.
  - right. specialize (Ht eq_refl). destruct (nlookup (V a k) (vname s)) as [n|] eqn:El; [|congruence].
    split; [exact E0|]. split; [|split; [reflexivity|apply (vname_in_temps _ _ El)]].
    intros [Ea Eb]. apply Nat.eqb_eq in Ea. apply Z.leb_le in Eb. rewrite Ea, Eb in E1. discriminate.
Qed.

Lemma nm_nonempty k : In k done -> nm k <> [].
Proof using Hcfg HN.
  intros Hk. destruct (nm_class k Hk) as [(_ & E)|[(_ & _ & _ & E)|(_ & _ & _ & Hin)]].
  - rewrite E. apply (ck_in _ Hcfg).
  - rewrite E. apply (ck_out _ Hcfg).
  - destruct (temps_are_tmpnames _ Hin) as (t & E). rewrite E. apply tmpname_nonempty.
Qed.

(* naming_sound: distinct variables get distinct names *)
Lemma naming_sound j k : In j done -> In k done -> V a j <> V a k -> nm j <> nm k.
Proof using Hcfg HN.
  intros Hj Hk Hv.
  destruct (nm_class j Hj) as [(Ej & Nj)|[(Ej & Vj & Lj & Nj)|(Ej & _ & Tj & Ij)]];
  destruct (nm_class k Hk) as [(Ek & Nk)|[(Ek & Vk & Lk & Nk)|(Ek & _ & Tk & Ik)]].
  - subst. congruence.
  - rewrite Nj, Nk. apply (ck_io _ Hcfg).
  - rewrite Nj. destruct (temps_are_tmpnames _ Ik) as (t & ->). intros E. symmetry in E. revert E. apply (ck_tin _ Hcfg).
  - rewrite Nj, Nk. intros E. symmetry in E. revert E. apply (ck_io _ Hcfg).
  - congruence.
  - rewrite Nj. destruct (temps_are_tmpnames _ Ik) as (t & ->). intros E. symmetry in E. revert E. apply (ck_tout _ Hcfg).
  - rewrite Nk. destruct (temps_are_tmpnames _ Ij) as (t & ->). apply (ck_tin _ Hcfg).
  - rewrite Nk. destruct (temps_are_tmpnames _ Ij) as (t & ->). apply (ck_tout _ Hcfg).
  - intros E. apply Hv. rewrite <- E in Tk.
    apply (nlookup_inj (vname s) _ _ (nm j)); [|exact Tj|exact Tk].
    rewrite (ni_vals _ _ _ _ _ _ HN). apply NoDup_rev, temps_NoDup.
Qed.

(* the input name is used for element 0 only *)
Lemma nm_input_only k : In k done -> (nm k = cfg_in cfg <-> k = 0).
Proof using Hcfg HN.
  intros Hk. destruct (nm_class k Hk) as [(E & Nk)|[(E & _ & _ & Nk)|(E & _ & _ & Ik)]].
  - tauto.
  - rewrite Nk. split; [intros H; symmetry in H; now apply (ck_io _ Hcfg) in H|tauto].
  - destruct (temps_are_tmpnames _ Ik) as (t & ->). split; [intros H; now apply (ck_tin _ Hcfg) in H|tauto].
Qed.

(* temporaries_exact: the declared temporaries are the names used other than input and output *)
Lemma temporaries_exact n : In n (temps s) <->
  (exists k, In k done /\ nm k = n) /\ n <> cfg_in cfg /\ n <> cfg_out cfg.
Proof using Hcfg HN.
  split.
  - intros Hin. destruct (temps_are_tmpnames _ Hin) as (t & Et).
    split; [|subst n; split; [apply (ck_tin _ Hcfg)|apply (ck_tout _ Hcfg)]].
    apply in_rev in Hin. rewrite <- (ni_vals _ _ _ _ _ _ HN) in Hin.
    apply in_map_iff in Hin as ([v n'] & E & Hvn). cbn [snd] in E. subst n'.
    assert (Hv : In v (map fst (vname s))) by (apply in_map_iff; exists (v, n); auto).
    destruct (ni_used _ _ _ _ _ _ HN v Hv) as (k & Hk & Htk & Evk).
    exists k. split; [exact Hk|].
    pose proof (In_nlookup v n (vname s) (ni_keys _ _ _ _ _ _ HN) Hvn) as El.
    unfold nm, nm_of. unfold is_temp in Htk.
    destruct (k =? 0); [discriminate Htk|]. cbn [negb andb] in Htk.
    destruct ((V a k =? outv)%nat && (lir <=? k)); [discriminate Htk|].
    rewrite Evk, El. reflexivity.
  - intros [(k & Hk & E) [Hi Ho]]. destruct (nm_class k Hk) as [(_ & Nk)|[(_ & _ & _ & Nk)|(_ & _ & _ & Ik)]]; try congruence.
Qed.

(* each temporary belongs to its own variable, so there are at most nvars of them *)
Lemma temps_le_nvars : bounded a -> (forall k, In k done -> zlookup k (variable a) <> None) ->
  (length (temps s) <= nvars a)%nat.
Proof using HN.
  intros [Hb _] Hal.
  assert (Hlen : length (temps s) = length (map fst (vname s))).
  { rewrite map_length, <- (map_length snd), (ni_vals _ _ _ _ _ _ HN), rev_length. reflexivity. }
  rewrite Hlen, <- (seq_length (nvars a) 0).
  apply NoDup_incl_length; [apply (ni_keys _ _ _ _ _ _ HN)|].
  intros v Hv. destruct (ni_used _ _ _ _ _ _ HN v Hv) as (k & Hk & _ & E).
  apply in_seq. specialize (Hal k Hk). unfold V in E.
  destruct (zlookup k (variable a)) as [w|] eqn:El; [|congruence]. subst w. specialize (Hb _ _ El). lia.
Qed.

End Names.

(* ------------------------------------------------------------------ program structure *)
Lemma last_instr_split p lst : last_instr p = Some lst -> exists front, p = front ++ [lst].
Proof.
  induction p as [|i r IH]; cbn [last_instr]; [discriminate|].
  destruct r as [|i2 r2].
  - intros E. injection E as <-. exists []. reflexivity.
  - intros E. destruct (IH E) as (front & Ef). exists (i :: front). cbn [app]. now rewrite <- Ef.
Qed.

Lemma last_instr_some p : p <> [] -> exists lst, last_instr p = Some lst.
Proof.
  induction p as [|i r IH]; [congruence|]. intros _. destruct r as [|i2 r2]; [eexists; reflexivity|].
  destruct IH as (lst & E); [discriminate|]. exists lst. exact E.
Qed.

Lemma outs_app p q : outs (p ++ q) = outs p ++ outs q.
Proof. apply map_app. Qed.
Lemma reads_app p q : reads (p ++ q) = reads p ++ reads q.
Proof. unfold reads. apply flat_map_app. Qed.

Lemma wf_from_app pre : forall q d l, wf_from d l (pre ++ q) ->
  exists d' l', wf_from d' l' q /\ l <= l' /\ (forall o, In o (outs pre) -> o <= l').
Proof.
  induction pre as [|i pre IH]; intros q d l H; cbn [app] in *.
  - exists d, l. split; [exact H|]. split; [lia|intros o []].
  - destruct H as (Hlt & _ & Hr). destruct (IH _ _ _ Hr) as (d' & l' & Hq & Hle & Ho).
    exists d', l'. split; [exact Hq|]. split; [lia|]. intros o [<-|Hin]; [lia|auto].
Qed.

(* outputs are positive and strictly increasing *)
Lemma wf_ir_outs_pos p o : wf_ir p -> In o (outs p) -> 0 < o.
Proof. intros H. apply (wf_from_outs_gt _ _ _ H). Qed.

Lemma wf_ir_outs_incr pre i q o : wf_ir (pre ++ i :: q) -> In o (outs q) -> out_index i < o.
Proof.
  intros H Ho. destruct (wf_from_app pre _ _ _ H) as (d' & l' & (_ & _ & Hq) & _).
  apply (wf_from_outs_gt _ _ _ Hq _ Ho).
Qed.

Lemma wf_ir_outs_before pre i q o : wf_ir (pre ++ i :: q) -> In o (outs pre) -> o < out_index i.
Proof.
  intros H Ho. destruct (wf_from_app pre _ _ _ H) as (d' & l' & (Hlt & _) & _ & Hb).
  specialize (Hb o Ho). lia.
Qed.

(* ------------------------------------------------------------------ lastinputread *)
Lemma lir_instr_spec l i : (In 0 (in_indexes i) -> lir_instr l i = out_index i) /\ (~ In 0 (in_indexes i) -> lir_instr l i = l).
Proof.
  unfold lir_instr. generalize (out_index i). intros o. revert l.
  induction (in_indexes i) as [|x xs IH]; intros l; cbn [fold_left In]; [tauto|].
  destruct (x =? 0) eqn:E.
  - apply Z.eqb_eq in E. subst x. split; [intros _|tauto].
    destruct (in_dec Z.eq_dec 0 xs) as [Hin|Hni]; [apply (proj1 (IH o)), Hin|apply (proj2 (IH o)), Hni].
  - apply Z.eqb_neq in E. destruct (IH l) as [IH1 IH2]. split.
    + intros [E2|Hin]; [congruence|auto].
    + intros Hni. apply IH2. tauto.
Qed.

Lemma lir_fold q : forall l, (In 0 (reads q) -> In (fold_left lir_instr q l) (outs q)) /\
                             (~ In 0 (reads q) -> fold_left lir_instr q l = l).
Proof.
  induction q as [|i r IH]; intros l; cbn [fold_left]; [cbn; tauto|].
  unfold reads, outs. cbn [flat_map map]. fold (reads r). fold (outs r). rewrite in_app_iff.
  destruct (IH (lir_instr l i)) as [IH1 IH2]. destruct (lir_instr_spec l i) as [S1 S2].
  destruct (in_dec Z.eq_dec 0 (reads r)) as [Hr|Hr].
  - split; [intros _; right; auto|tauto].
  - rewrite (IH2 Hr). split.
    + intros [Hi|Hi]; [|contradiction]. left. symmetry. auto.
    + intros Hn. apply S2. tauto.
Qed.

Lemma lir_in_suffix pre q : In 0 (reads q) -> In (lastinputread (pre ++ q)) (outs q).
Proof. intros H. unfold lastinputread. rewrite fold_left_app. apply lir_fold, H. Qed.

Lemma lir_le_last front lst : wf_ir (front ++ [lst]) -> lastinputread (front ++ [lst]) <= out_index lst.
Proof.
  intros Hw. set (p := front ++ [lst]).
  destruct (in_dec Z.eq_dec 0 (reads p)) as [H|H].
  - pose proof (lir_in_suffix [] p H) as Hin. cbn [app] in Hin. unfold p in Hin at 2. rewrite outs_app in Hin.
    apply in_app_or in Hin as [Hin|[<-|[]]]; [|fold p; lia].
    pose proof (wf_ir_outs_before front lst [] _ Hw Hin). fold p in H0. lia.
  - unfold lastinputread. rewrite (proj2 (lir_fold p 0) H).
    assert (0 < out_index lst); [|lia]. apply (wf_ir_outs_pos p); [exact Hw|]. unfold p. rewrite outs_app. apply in_or_app. right. now left.
Qed.

(* ------------------------------------------------------------------ separation of registers *)
(* two names denote the same register: equal names, or input/output in aliased mode *)
Definition same_reg (aliased : bool) (cfg : alloc_cfg) (n1 n2 : list N) : Prop :=
  n1 = n2 \/ (aliased = true /\ ((n1 = cfg_in cfg /\ n2 = cfg_out cfg) \/ (n1 = cfg_out cfg /\ n2 = cfg_in cfg))).

Section Allocated.
Variable cfg : alloc_cfg.
Hypothesis Hcfg : cfg_ok cfg.
Variables (p : iprogram) (lst : instr) (front : iprogram) (idx : list Z).
Hypothesis Hwf : wf_ir p.
Hypothesis Hp : p = front ++ [lst].
Hypothesis Hidx : forall k, In k idx <-> In k (reads p) \/ In k (outs p).

Let s := run_naming cfg p idx lst.
Let a := scan p.
Let lir := lastinputread p.
Let outv := V a (out_index lst).
Let nm := nm_of cfg lir outv a (vname s).

Lemma lst_in_outs : In (out_index lst) (outs p).
Proof using Hp. rewrite Hp, outs_app. apply in_or_app. right. now left. Qed.

Lemma alloc_NInv : NInv cfg lir outv a (rev idx) s.
Proof using Hwf Hp Hidx.
  apply run_naming_inv; [apply wf_ir_wf, Hwf|apply lst_in_outs|]. intros k Hk. now apply Hidx.
Qed.

Lemma idx_done k : In k (reads p) \/ In k (outs p) -> In k (rev idx).
Proof using Hidx. intros H. rewrite <- in_rev. now apply Hidx. Qed.

(* the identifier the pass leaves on the canonical operand of index k *)
Lemma ident_nm k : In k (reads p) \/ In k (outs p) -> ident (opname s) k = nm k.
Proof using Hwf Hp Hidx.
  intros H. unfold ident. destruct (ni_done _ _ _ _ _ _ alloc_NInv k (idx_done k H)) as [E _].
  fold s in E. rewrite E. reflexivity.
Qed.

Lemma nm_last : nm (out_index lst) = cfg_out cfg.
Proof using Hwf Hp Hidx.
  pose proof (wf_ir_outs_pos p _ Hwf lst_in_outs) as Hpos.
  assert (Hle : lir <= out_index lst) by (unfold lir; rewrite Hp; apply lir_le_last; rewrite <- Hp; exact Hwf).
  unfold nm, nm_of. destruct (out_index lst =? 0) eqn:E; [apply Z.eqb_eq in E; lia|].
  unfold outv. rewrite Nat.eqb_refl. apply Z.leb_le in Hle. rewrite Hle. reflexivity.
Qed.

(* an instruction's output register holds no other value that is needed later, in both modes *)
Theorem out_separate aliased pre i q j : p = pre ++ i :: q -> L q j -> j <> out_index i ->
  ~ same_reg aliased cfg (nm j) (nm (out_index i)).
Proof using Hcfg Hwf Hp Hidx.
  intros Ep Hj Hne.
  assert (Hw : wf p) by (apply wf_ir_wf, Hwf).
  assert (Hwq : wf (i :: q)) by (rewrite Ep in Hw; eapply wf_app; eauto).
  (* the variables differ *)
  destruct (out_conflict i q j Hwq Hj Hne) as (vj & vo & Ej & Eo & Hd).
  assert (Hst : stable (scan (i :: q)) a) by (unfold a; rewrite Ep; apply scan_stable).
  assert (HV : V a j <> V a (out_index i)).
  { unfold V. rewrite (Hst _ _ Ej), (Hst _ _ Eo). exact Hd. }
  assert (Hoin : In (out_index i) (outs p)) by (rewrite Ep, outs_app; apply in_or_app; right; now left).
  assert (Hjin : In j (reads p)).
  { destruct Hj as [Hj _]. rewrite Ep, reads_app. apply in_or_app. right. unfold reads. cbn [flat_map]. apply in_or_app. now right. }
  assert (Hdo : In (out_index i) (rev idx)) by (apply idx_done; auto).
  assert (Hdj : In j (rev idx)) by (apply idx_done; auto).
  pose proof (naming_sound cfg Hcfg lir outv a (rev idx) s alloc_NInv j (out_index i) Hdj Hdo HV) as Hns.
  fold nm in Hns.
  intros [E|(Hal & [[E1 E2]|[E1 E2]])]; [contradiction| |].
  - (* j is the input, the output of i is in the output variable: i is at or after the last reader of the input *)
    apply (nm_input_only cfg Hcfg lir outv a (rev idx) s alloc_NInv j Hdj) in E1. subst j.
    destruct (nm_class cfg lir outv a (rev idx) s alloc_NInv (out_index i) Hdo) as [(E0 & _)|[(_ & _ & Hle & _)|(_ & _ & _ & Hin)]].
    + pose proof (wf_ir_outs_pos p _ Hwf Hoin). lia.
    + assert (H0 : In 0 (reads q)) by apply Hj.
      pose proof (lir_in_suffix (pre ++ [i]) q H0) as Hl. rewrite <- app_assoc in Hl. cbn [app] in Hl. rewrite <- Ep in Hl.
      fold lir in Hl. rewrite Ep in Hwf. pose proof (wf_ir_outs_incr pre i q _ Hwf Hl). lia.
    + fold nm in Hin. rewrite E2 in Hin. destruct (temps_are_tmpnames cfg lir outv a (rev idx) s alloc_NInv _ Hin) as (t & Et).
      symmetry in Et. revert Et. apply (ck_tout _ Hcfg).
  - (* the output of i cannot be named like the input *)
    apply (nm_input_only cfg Hcfg lir outv a (rev idx) s alloc_NInv _ Hdo) in E2.
    pose proof (wf_ir_outs_pos p _ Hwf Hoin). lia.
Qed.

(* no instruction writes the input variable *)
Lemma out_not_input i : In i p -> nm (out_index i) <> cfg_in cfg.
Proof using Hcfg Hwf Hp Hidx.
  intros Hi E. assert (Hoin : In (out_index i) (outs p)) by (apply in_map, Hi).
  apply (nm_input_only cfg Hcfg lir outv a (rev idx) s alloc_NInv _ (idx_done _ (or_intror Hoin))) in E.
  pose proof (wf_ir_outs_pos p _ Hwf Hoin). lia.
Qed.

End Allocated.

(* ------------------------------------------------------------------ C17 *)
Lemma last_instr_nonempty p lst : last_instr p = Some lst -> p <> [].
Proof. intros H E. subst. discriminate H. Qed.

Theorem temps_le_peak cfg p nmap q temporaries : wf_ir p -> no_dead p -> consistent nmap p ->
  allocate cfg p = Ok (q, temporaries) -> (length temporaries <= peak p)%nat.
Proof.
  intros Hwf Hnd Hc Hal.
  destruct (last_instr p) as [lst|] eqn:El; [|unfold allocate in Hal; rewrite El in Hal; discriminate Hal].
  destruct (allocate_shape cfg p lst nmap Hwf El Hc) as (idx & Hidx & E).
  rewrite E in Hal. injection Hal as _ <-.
  destruct (last_instr_split p lst El) as (front & Ep).
  pose proof (alloc_NInv cfg p lst front idx Hwf Ep Hidx) as HN.
  assert (H1 : (length (temps (run_naming cfg p idx lst)) <= nvars (scan p))%nat).
  { apply (temps_le_nvars cfg _ _ _ _ _ HN); [apply scan_bounded|].
    intros k Hk. apply scan_allocated; [apply wf_ir_wf, Hwf|]. apply Hidx. now apply in_rev. }
  pose proof (nvars_le_peak p (wf_ir_wf p Hwf) Hnd (last_instr_nonempty p lst El)). lia.
Qed.

(* ------------------------------------------------------------------ configurations: when cfg_ok holds *)
Open Scope N_scope.

(* a left inverse of the number rendering, used only in proofs: reads a numeral in the given base
   where a space counts as the digit 0 (so that space padding and zero padding are both skipped)
   and upper-case hex digits are accepted *)
Definition dval (c : N) : option N :=
  if c =? 32 then Some 0
  else if (48 <=? c) && (c <=? 57) then Some (c - 48)
  else if (97 <=? c) && (c <=? 102) then Some (c - 87)
  else if (65 <=? c) && (c <=? 70) then Some (c - 55)
  else None.

Fixpoint pv (base a : N) (s : list N) : option N :=
  match s with
  | [] => Some a
  | c :: r => match dval c with Some d => pv base (a * base + d) r | None => None end
  end.

Lemma pv_app base s1 : forall a s2,
  pv base a (s1 ++ s2) = match pv base a s1 with Some a' => pv base a' s2 | None => None end.
Proof.
  induction s1 as [|c s1 IH]; intros a s2; cbn [app pv]; [reflexivity|].
  destruct (dval c); [apply IH|reflexivity].
Qed.

Lemma dval_hexchar r : r < 16 -> dval (hexchar r) = Some r /\ dval (upcase (hexchar r)) = Some r.
Proof.
  intros Hr. unfold hexchar. destruct (r <? 10) eqn:E.
  - apply N.ltb_lt in E. assert (H : 48 + r = 48 \/ 48 + r = 49 \/ 48 + r = 50 \/ 48 + r = 51 \/ 48 + r = 52 \/
      48 + r = 53 \/ 48 + r = 54 \/ 48 + r = 55 \/ 48 + r = 56 \/ 48 + r = 57) by lia.
    assert (Er : forall k, 48 + r = k -> r = k - 48) by (intros; lia).
    destruct H as [H|[H|[H|[H|[H|[H|[H|[H|[H|H]]]]]]]]]; rewrite H; rewrite (Er _ H); split; reflexivity.
  - apply N.ltb_ge in E. assert (H : 87 + r = 97 \/ 87 + r = 98 \/ 87 + r = 99 \/ 87 + r = 100 \/ 87 + r = 101 \/ 87 + r = 102) by lia.
    assert (Er : forall k, 87 + r = k -> r = k - 87) by (intros; lia).
    destruct H as [H|[H|[H|[H|[H|H]]]]]; rewrite H; rewrite (Er _ H); split; reflexivity.
Qed.

(* the digits printed for n read back as n, in lower and in upper case *)
Lemma print_base_parse base f : 2 <= base <= 16 -> forall n l, (0 < f)%nat -> n < 2 ^ N.of_nat f ->
  exists ds k, print_base_fuel base f n l = ds ++ l /\
               (forall a, pv base a ds = Some (a * k + n)) /\ (forall a, pv base a (map upcase ds) = Some (a * k + n)).
Proof.
  intros Hb. induction f as [|f IH]; intros n l Hf Hn; [lia|]. cbn [print_base_fuel].
  assert (Hr : n mod base < 16) by (pose proof (N.mod_lt n base ltac:(lia)); lia).
  pose proof (N.div_mod n base ltac:(lia)) as Hdm.
  destruct (dval_hexchar _ Hr) as [D1 D2].
  destruct (n / base =? 0) eqn:Eq.
  - apply N.eqb_eq in Eq. exists [hexchar (n mod base)], base. split; [reflexivity|].
    split; intros a; cbn [map pv]; rewrite ?D1, ?D2; f_equal; nia.
  - apply N.eqb_neq in Eq.
    assert (Hq : n / base < 2 ^ N.of_nat f).
    { apply N.div_lt_upper_bound; [lia|]. rewrite Nat2N.inj_succ, N.pow_succ_r' in Hn. nia. }
    assert (Hf' : (0 < f)%nat).
    { destruct f as [|f']; [|lia]. exfalso. change (2 ^ N.of_nat 0) with 1 in Hq. apply Eq. apply N.lt_1_r. exact Hq. }
    destruct (IH (n / base) (hexchar (n mod base) :: l) Hf' Hq) as (ds & k & E & Hp & Hpu).
    exists (ds ++ [hexchar (n mod base)]), (k * base). split; [rewrite E, <- app_assoc; reflexivity|].
    split; intros a; rewrite ?map_app, pv_app, ?Hp, ?Hpu; cbn [map pv]; rewrite ?D1, ?D2; f_equal; nia.
Qed.

(* decimal special case in terms of Proto.parse_dec_acc (used by proofs/GenProofs.v) *)
Lemma parse_dec_acc_app s1 : forall a s2,
  parse_dec_acc a (s1 ++ s2) = match parse_dec_acc a s1 with Some a' => parse_dec_acc a' s2 | None => None end.
Proof.
  induction s1 as [|c s1 IH]; intros a s2; cbn [app parse_dec_acc]; [reflexivity|].
  destruct ((48 <=? c) && (c <=? 57)); [apply IH|reflexivity].
Qed.

Lemma dec_digit r : r < 10 -> forall a, parse_dec_acc a [hexchar r] = Some (a * 10 + r).
Proof.
  intros Hr a. unfold hexchar. assert (E : (r <? 10) = true) by now apply N.ltb_lt. rewrite E.
  cbn [parse_dec_acc].
  assert (E1 : (48 <=? 48 + r) = true) by (apply N.leb_le; lia).
  assert (E2 : (48 + r <=? 57) = true) by (apply N.leb_le; lia).
  rewrite E1, E2. cbn [andb]. f_equal. lia.
Qed.

Lemma print_dec_parse f : forall n l, (0 < f)%nat -> n < 2 ^ N.of_nat f ->
  exists ds k, print_base_fuel 10 f n l = ds ++ l /\ forall a, parse_dec_acc a ds = Some (a * k + n).
Proof.
  induction f as [|f IH]; intros n l Hf Hn; [lia|]. cbn [print_base_fuel].
  assert (Hr : n mod 10 < 10) by (apply N.mod_lt; lia).
  pose proof (N.div_mod n 10 ltac:(lia)) as Hdm.
  destruct (n / 10 =? 0) eqn:Eq.
  - apply N.eqb_eq in Eq. exists [hexchar (n mod 10)], 10. split; [reflexivity|].
    intros a. rewrite (dec_digit _ Hr). f_equal. lia.
  - apply N.eqb_neq in Eq.
    assert (Hq : n / 10 < 2 ^ N.of_nat f).
    { apply N.div_lt_upper_bound; [lia|]. rewrite Nat2N.inj_succ, N.pow_succ_r' in Hn. lia. }
    assert (Hf' : (0 < f)%nat).
    { destruct f; [|lia]. cbn in Hq. lia. }
    destruct (IH (n / 10) (hexchar (n mod 10) :: l) Hf' Hq) as (ds & k & E & Hp).
    exists (ds ++ [hexchar (n mod 10)]), (k * 10). split.
    + rewrite E, <- app_assoc. reflexivity.
    + intros a. rewrite parse_dec_acc_app, Hp, (dec_digit _ Hr). f_equal. lia.
Qed.

(* every byte of a rendered number is a digit, a letter or a space: at least 32 *)
Lemma hexchar_ge r : 48 <= hexchar r.
Proof. unfold hexchar. destruct (r <? 10); lia. Qed.

Lemma pbf_chars b f : forall n l c, In c (print_base_fuel b f n l) -> In c l \/ 48 <= c.
Proof.
  induction f as [|f IH]; intros n l c Hc; cbn [print_base_fuel] in Hc; [now left|].
  destruct (n / b =? 0).
  - destruct Hc as [<-|Hc]; [right; apply hexchar_ge|now left].
  - destruct (IH _ _ _ Hc) as [[<-|H]|H]; [right; apply hexchar_ge|now left|now right].
Qed.

Lemma tmpname_chars cfg t c : In c (tmpname cfg t) ->
  In c (cfg_prefix cfg) \/ In c (f_suffix (cfg_fmt cfg)) \/ 32 <= c.
Proof.
  unfold tmpname, render_fmt, pad, cfg_prefix. rewrite !in_app_iff. intros [H|[[H|H]|H]]; auto.
  - apply repeat_spec in H. subst c. right. right. destruct (f_zero (cfg_fmt cfg)); lia.
  - right. right.
    assert (Hp : forall c' b f n, In c' (print_base_fuel b f n []) -> 32 <= c').
    { intros c' b f n Hc. destruct (pbf_chars _ _ _ _ _ Hc) as [[]|Hc']. lia. }
    destruct (f_verb (cfg_fmt cfg)); unfold render_digits, print_decN, print_hexN, print_binN in H; try (apply Hp in H; exact H).
    apply in_map_iff in H as (c0 & <- & H0). apply Hp in H0. unfold upcase.
    destruct ((97 <=? c0) && (c0 <=? 122)) eqn:E; [|exact H0].
    apply andb_true_iff in E as [E _]. apply N.leb_le in E. lia.
Qed.

Definition verb_base (v : verb) : N :=
  match v with VDec => 10 | VHex => 16 | VHexUp => 16 | VOct => 8 | VBin => 2 end.

Lemma render_digits_value v n : pv (verb_base v) 0 (render_digits v n) = Some n.
Proof.
  assert (H : forall base, 2 <= base <= 16 ->
            exists ds, print_base_fuel base (S (N.to_nat (N.size n))) n [] = ds /\
                       pv base 0 ds = Some n /\ pv base 0 (map upcase ds) = Some n).
  { intros base Hb.
    destruct (print_base_parse base (S (N.to_nat (N.size n))) Hb n []) as (ds & k & Ed & Hp & Hpu); [lia| |].
    - rewrite Nat2N.inj_succ, N2Nat.id, N.pow_succ_r'. pose proof (N.size_gt n). lia.
    - exists ds. rewrite Ed, app_nil_r. split; [reflexivity|]. rewrite Hp, Hpu. split; f_equal. }
  destruct v; cbn [verb_base render_digits]; unfold print_decN, print_hexN, print_binN.
  - destruct (H 10 ltac:(lia)) as (ds & -> & P & _). exact P.
  - destruct (H 16 ltac:(lia)) as (ds & -> & P & _). exact P.
  - destruct (H 16 ltac:(lia)) as (ds & -> & _ & P). exact P.
  - destruct (H 8 ltac:(lia)) as (ds & -> & P & _). exact P.
  - destruct (H 2 ltac:(lia)) as (ds & -> & P & _). exact P.
Qed.

(* padding with zeros or spaces does not change the value read back *)
Lemma pv_pad base z w s : pv base 0 (pad z w s) = pv base 0 s.
Proof.
  unfold pad. induction (w - length s)%nat as [|k IH]; cbn [repeat app]; [reflexivity|].
  cbn [pv]. assert (E : dval (if z then 48 else 32) = Some 0) by (destruct z; reflexivity).
  rewrite E, N.mul_0_l, N.add_0_l. exact IH.
Qed.

Lemma print_decN_inj n m : print_decN n = print_decN m -> n = m.
Proof.
  intros E. pose proof (render_digits_value VDec n) as H1. pose proof (render_digits_value VDec m) as H2.
  cbn [render_digits] in H1, H2. rewrite E in H1. congruence.
Qed.

(* the rendering of the counter is injective for every supported verb, flag and width *)
Lemma tmpname_inj cfg n m : tmpname cfg n = tmpname cfg m -> n = m.
Proof.
  unfold tmpname, render_fmt. intros E. apply app_inv_head in E. apply app_inv_tail in E.
  pose proof (pv_pad (verb_base (f_verb (cfg_fmt cfg))) (f_zero (cfg_fmt cfg)) (f_width (cfg_fmt cfg))
                (render_digits (f_verb (cfg_fmt cfg)) (N.of_nat n))) as H1.
  rewrite E, pv_pad, !render_digits_value in H1. injection H1 as H1. now apply Nat2N.inj.
Qed.

Fixpoint is_prefix (a b : list N) : bool :=
  match a, b with
  | [], _ => true
  | x :: a', y :: b' => (x =? y) && is_prefix a' b'
  | _ :: _, [] => false
  end.

Lemma is_prefix_app a : forall r, is_prefix a (a ++ r) = true.
Proof. induction a as [|x a IH]; intros r; cbn [is_prefix app]; [reflexivity|]. now rewrite N.eqb_refl, IH. Qed.

(* a sufficient condition that is easy to check: the literal text in front of the verb is a prefix
   of neither name *)
Theorem cfg_ok_intro cfg : cfg_in cfg <> [] -> cfg_out cfg <> [] -> cfg_in cfg <> cfg_out cfg ->
  is_prefix (cfg_prefix cfg) (cfg_in cfg) = false -> is_prefix (cfg_prefix cfg) (cfg_out cfg) = false ->
  cfg_ok cfg.
Proof.
  intros H1 H2 H3 H4 H5. constructor; auto.
  - intros n E. unfold tmpname, render_fmt in E. unfold cfg_prefix in H4. rewrite <- E, is_prefix_app in H4. discriminate.
  - intros n E. unfold tmpname, render_fmt in E. unfold cfg_prefix in H5. rewrite <- E, is_prefix_app in H5. discriminate.
  - apply tmpname_inj.
Qed.

(* the other sufficient condition (for formats that start with the verb, such as "%d" or "%dk"):
   cfg_ok only needs the names to differ from the rendered temporaries *)
Theorem cfg_ok_by_names cfg : cfg_in cfg <> [] -> cfg_out cfg <> [] -> cfg_in cfg <> cfg_out cfg ->
  (forall n, tmpname cfg n <> cfg_in cfg) -> (forall n, tmpname cfg n <> cfg_out cfg) -> cfg_ok cfg.
Proof. intros H1 H2 H3 H4 H5. constructor; auto. apply tmpname_inj. Qed.
Close Scope N_scope.
