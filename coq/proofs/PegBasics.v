(* Lemmas about the lexical layer of the parser model: literals, spans, white space, decimal
   printing and UintLiteral.  Ported from the design-round prototype (appendix B). *)
From Coq Require Import List NArith ZArith Lia Bool Arith.
From AV Require Import model.Proto model.Ast model.Printer model.Peg.
Import ListNotations.
Open Scope N_scope.

(* ---------- basic string lemmas ---------- *)
Lemma lit_app l r : lit l (l ++ r) = Some r.
Proof. induction l as [|a l IH]; simpl; [reflexivity|]. now rewrite N.eqb_refl. Qed.

Definition nohead (p : N -> bool) (r : list N) := match r with [] => True | c :: _ => p c = false end.

Lemma span_app p a r : forallb p a = true -> nohead p r -> span p (a ++ r) = (a, r).
Proof.
  induction a as [|c a IH]; simpl; intros Ha Hr.
  - destruct r as [|c r]; simpl in *; [reflexivity|]. now rewrite Hr.
  - apply andb_true_iff in Ha as [Hc Ha]. rewrite Hc, (IH Ha Hr). reflexivity.
Qed.

Lemma span_spec p s : forall a b, span p s = (a, b) -> s = a ++ b /\ forallb p a = true /\ nohead p b.
Proof.
  induction s as [|c s IH]; simpl; intros a b H.
  - injection H as <- <-. repeat split.
  - destruct (p c) eqn:E.
    + destruct (span p s) as [a' b'] eqn:E'. injection H as <- <-.
      destruct (IH a' b' eq_refl) as (-> & Ha & Hb). repeat split; auto. simpl. now rewrite E, Ha.
    + injection H as <- <-. repeat split. simpl. exact E.
Qed.

Lemma skipws_nows s : nohead is_ws s -> skipws s = s.
Proof. destruct s as [|c s]; simpl; intros H; [reflexivity|]. now rewrite H. Qed.

Lemma skipws_idem s : skipws (skipws s) = skipws s.
Proof.
  induction s as [|c s IH]; simpl; [reflexivity|].
  destruct (is_ws c) eqn:E; [exact IH|]. simpl. now rewrite E.
Qed.

Lemma skipws_sp s : skipws (32 :: s) = skipws s.
Proof. reflexivity. Qed.

Lemma skipws_spaces n s : skipws (repeat 32 n ++ s) = skipws s.
Proof. induction n as [|n IH]; [reflexivity|]. exact IH. Qed.

Lemma skipws_head s c t : skipws s = c :: t -> is_ws c = false.
Proof.
  induction s as [|a s IH]; simpl; [discriminate|].
  destruct (is_ws a) eqn:E; [exact IH|]. intros H. injection H as <- <-. exact E.
Qed.

Lemma skipws_nohead s : nohead is_ws (skipws s).
Proof. destruct (skipws s) as [|c t] eqn:E; [exact I|]. simpl. eapply skipws_head; eauto. Qed.

Lemma skipws_cases s : (exists c t, s = c :: t /\ is_ws c = true) \/ skipws s = s.
Proof. destruct s as [|c t]; [now right|]. simpl. destruct (is_ws c) eqn:E; [left; eauto|now right]. Qed.

Lemma skipws_length s : (length (skipws s) <= length s)%nat.
Proof. induction s as [|c s IH]; simpl; [lia|]. destruct (is_ws c); simpl; lia. Qed.

Lemma lit_length l : forall s r, lit l s = Some r -> (length s = length l + length r)%nat.
Proof.
  induction l as [|a l IH]; intros s r H; simpl in *.
  - injection H as <-. reflexivity.
  - destruct s as [|b s]; [discriminate|]. destruct (a =? b); [|discriminate]. simpl. now rewrite (IH _ _ H).
Qed.

Lemma lit_spec l : forall s r, lit l s = Some r -> s = l ++ r.
Proof.
  induction l as [|a l IH]; intros s r H; simpl in *.
  - now injection H as <-.
  - destruct s as [|b s]; [discriminate|]. destruct (a =? b) eqn:E; [|discriminate].
    apply N.eqb_eq in E. subst b. simpl. now rewrite (IH _ _ H).
Qed.

Lemma lit1_ne k c s : c <> k -> lit [k] (c :: s) = None.
Proof. intros H. simpl. destruct (k =? c) eqn:E; [apply N.eqb_eq in E; congruence|reflexivity]. Qed.
Lemma lit1_eq k s : lit [k] (k :: s) = Some s.
Proof. simpl. now rewrite N.eqb_refl. Qed.
Lemma lit_ne_head k l c s : c <> k -> lit (k :: l) (c :: s) = None.
Proof. intros H. simpl. destruct (k =? c) eqn:E; [apply N.eqb_eq in E; congruence|reflexivity]. Qed.

(* ---------- character classes ---------- *)
Lemma ws_cases c : is_ws c = true -> c = 32 \/ c = 9 \/ c = 13.
Proof.
  unfold is_ws. intros H. apply orb_true_iff in H as [H|H]; [apply orb_true_iff in H as [H|H]|];
  apply N.eqb_eq in H; auto.
Qed.

Lemma alpha_cases c : is_alpha_ c = true -> (97 <= c <= 122) \/ (65 <= c <= 90) \/ c = 95.
Proof.
  unfold is_alpha_. intros H.
  apply orb_true_iff in H as [H|H]; [apply orb_true_iff in H as [H|H]|].
  - apply andb_true_iff in H as [H1 H2]. apply N.leb_le in H1, H2. lia.
  - apply andb_true_iff in H as [H1 H2]. apply N.leb_le in H1, H2. lia.
  - apply N.eqb_eq in H. lia.
Qed.

Lemma digit_cases c : is_digit c = true -> 48 <= c <= 57.
Proof. unfold is_digit. intros H. apply andb_true_iff in H as [H1 H2]. apply N.leb_le in H1, H2. lia. Qed.

Lemma digit_intro c : 48 <= c <= 57 -> is_digit c = true.
Proof. intros H. unfold is_digit. apply andb_true_iff; split; apply N.leb_le; lia. Qed.

Lemma alpha_nows c : is_alpha_ c = true -> is_ws c = false.
Proof.
  intros H. apply alpha_cases in H. unfold is_ws.
  repeat (apply orb_false_iff; split); apply N.eqb_neq; lia.
Qed.
Lemma digit_nows c : is_digit c = true -> is_ws c = false.
Proof.
  intros H. apply digit_cases in H. unfold is_ws.
  repeat (apply orb_false_iff; split); apply N.eqb_neq; lia.
Qed.
Lemma alpha_nodigit c : is_alpha_ c = true -> is_digit c = false.
Proof.
  intros H. apply alpha_cases in H. unfold is_digit.
  apply andb_false_iff. destruct (N.leb_spec 48 c); [right; apply N.leb_gt; lia|left; reflexivity].
Qed.
Lemma alpha_idc c : is_alpha_ c = true -> is_idc c = true.
Proof. intros H. unfold is_idc. now rewrite H. Qed.
Lemma digit_idc c : is_digit c = true -> is_idc c = true.
Proof. intros H. unfold is_idc. rewrite H. apply orb_true_r. Qed.
Lemma not_idc c : is_idc c = false -> is_alpha_ c = false /\ is_digit c = false.
Proof. unfold is_idc. intros H. now apply orb_false_iff in H. Qed.

(* ---------- decimal printing ---------- *)
Fixpoint dec_val (acc : N) (ds : list N) : N :=
  match ds with
  | d :: r => dec_val (acc * 10 + (d - 48)) r
  | [] => acc
  end.

Lemma dec_val_snoc l : forall a x, dec_val a (l ++ [x]) = dec_val a l * 10 + (x - 48).
Proof. induction l as [|y l IHl]; intros; simpl; [reflexivity|]. apply IHl. Qed.

Lemma dec_aux_spec fuel : forall n acc, n < 10 ^ N.of_nat fuel -> (0 < fuel)%nat ->
  exists d ds, dec_aux fuel n acc = (d :: ds) ++ acc /\ forallb is_digit (d :: ds) = true /\
             (0 < n -> d <> 48) /\ (n = 0 -> ds = []) /\
             forall a, dec_val a (d :: ds) = a * 10 ^ N.of_nat (length (d :: ds)) + n.
Proof.
  induction fuel as [|fuel IH]; intros n acc Hn Hf; [lia|].
  cbn [dec_aux]. destruct (n <? 10) eqn:Hlt.
  - apply N.ltb_lt in Hlt. exists (n + 48), []. cbn [app length dec_val forallb]. repeat split; try congruence.
    + rewrite andb_true_r. apply digit_intro. lia.
    + lia.
    + intros a. replace (n + 48 - 48) with n by lia. change (N.of_nat 1) with 1. lia.
  - apply N.ltb_ge in Hlt.
    assert (Hf' : (0 < fuel)%nat).
    { destruct fuel; [|apply Nat.lt_0_succ]. change (N.of_nat 1) with 1 in Hn. rewrite N.pow_1_r in Hn. lia. }
    destruct (IH (n / 10) ((n mod 10 + 48) :: acc)) as (d & ds & E & Hd & Hnz & _ & Hv); [|exact Hf'|].
    { apply N.div_lt_upper_bound; [lia|]. rewrite Nat2N.inj_succ, N.pow_succ_r' in Hn. exact Hn. }
    exists d, (ds ++ [n mod 10 + 48]). rewrite E. repeat split.
    + cbn [app]. rewrite <- app_assoc. reflexivity.
    + change (d :: ds ++ [n mod 10 + 48]) with ((d :: ds) ++ [n mod 10 + 48]).
      rewrite forallb_app, Hd. cbn [forallb andb]. rewrite andb_true_r.
      assert (n mod 10 < 10) by (apply N.mod_lt; lia).
      remember (n mod 10) as m eqn:Heqm. clear Heqm. apply digit_intro. lia.
    + intros _. apply Hnz. apply N.div_str_pos. lia.
    + intros ->. simpl in Hlt. lia.
    + intros a.
      change (d :: ds ++ [n mod 10 + 48]) with ((d :: ds) ++ [n mod 10 + 48]).
      rewrite dec_val_snoc, Hv, app_length. cbn [length]. rewrite Nat.add_1_r, !Nat2N.inj_succ, !N.pow_succ_r'.
      rewrite N.add_sub.
      pose proof (N.div_mod n 10 ltac:(lia)) as Hdm.
      remember (n mod 10) as m eqn:Heqm. remember (n / 10) as q eqn:Heqq. clear Heqm Heqq.
      remember (10 ^ N.of_nat (length ds)) as P. lia.
Qed.

Lemma size_pow10 n : n < 10 ^ N.of_nat (S (N.to_nat (N.size n))).
Proof.
  apply N.lt_le_trans with (2 ^ N.size n).
  - apply N.size_gt.
  - rewrite Nat2N.inj_succ, N2Nat.id.
    apply N.le_trans with (10 ^ N.size n).
    + apply N.pow_le_mono_l. lia.
    + apply N.pow_le_mono_r; lia.
Qed.

Lemma dec_str_spec n : exists d ds, dec_str n = d :: ds /\ forallb is_digit (d :: ds) = true /\
  (0 < n -> d <> 48) /\ (n = 0 -> ds = []) /\ dec_val 0 (d :: ds) = n.
Proof.
  unfold dec_str.
  destruct (dec_aux_spec (S (N.to_nat (N.size n))) n [] (size_pow10 n) ltac:(lia)) as (d & ds & E & Hd & Hnz & Hz & Hv).
  exists d, ds. rewrite E, app_nil_r. repeat split; auto. rewrite Hv. lia.
Qed.

Lemma dec_str_head n r : exists c t, dec_str n ++ r = c :: t /\ is_digit c = true.
Proof.
  destruct (dec_str_spec n) as (d & ds & E & Hd & _). rewrite E.
  simpl in Hd. apply andb_true_iff in Hd as [Hc _].
  exists d, (ds ++ r). split; [reflexivity|exact Hc].
Qed.

Lemma dec_str_length n : (1 <= length (dec_str n))%nat.
Proof. destruct (dec_str_spec n) as (d & ds & E & _). rewrite E. simpl. lia. Qed.

(* ---------- strconv.ParseUint on a decimal digit string ---------- *)
Lemma digit_val_digit c : is_digit c = true -> digit_val c = Some (c - 48).
Proof. intros H. unfold digit_val. now rewrite H. Qed.

Lemma dec_val_mono ds : forall a b, a <= b -> dec_val a ds <= dec_val b ds.
Proof. induction ds as [|d ds IH]; intros a b H; simpl; [exact H|]. apply IH. lia. Qed.
Lemma dec_val_ge ds : forall a, a <= dec_val a ds.
Proof. induction ds as [|d ds IH]; intros a; simpl; [lia|]. eapply N.le_trans; [|apply IH]. lia. Qed.

Lemma digits_val_dec ds : forall acc, forallb is_digit ds = true -> dec_val acc ds < 2 ^ 64 ->
  digits_val 10 acc ds = Some (dec_val acc ds).
Proof.
  induction ds as [|d ds IH]; intros acc Hd Hv; cbn [digits_val dec_val]; [reflexivity|].
  cbn [forallb] in Hd. apply andb_true_iff in Hd as [Hc Hd]. rewrite (digit_val_digit _ Hc).
  pose proof (digit_cases _ Hc) as Hcc.
  cbn [dec_val] in Hv. pose proof (dec_val_ge ds (acc * 10 + (d - 48))) as Hge.
  assert (E1 : (d - 48 <? 10) = true) by (apply N.ltb_lt; lia).
  assert (E2 : (acc * 10 + (d - 48) <? 2 ^ 64) = true) by (apply N.ltb_lt; lia).
  rewrite E1, E2. now apply IH.
Qed.

Definition sepr := nohead is_idc.

Lemma sepr_nodigit r : sepr r -> nohead is_digit r.
Proof. destruct r as [|c r]; [auto|]. simpl. intros H. now apply not_idc in H. Qed.

Lemma octdigit_digit c : is_octdigit c = true -> is_digit c = true.
Proof.
  unfold is_octdigit, is_digit. intros H. apply andb_true_iff in H as [H1 H2].
  apply N.leb_le in H1, H2. apply andb_true_iff; split; apply N.leb_le; lia.
Qed.

(* the UintLiteral rule reads back what %d printed *)
Lemma p_uint_dec n r : n < 2 ^ 64 -> sepr r -> p_uint (dec_str n ++ r) = PGot false n r.
Proof.
  intros Hn Hr. destruct (dec_str_spec n) as (d & ds & E & Hd & Hnz & Hz & Hv). rewrite E.
  pose proof Hd as Hd'. cbn [forallb] in Hd'. apply andb_true_iff in Hd' as [Hc Hds].
  pose proof (digit_cases _ Hc) as Hcc.
  assert (Hsp : span is_digit ((d :: ds) ++ r) = (d :: ds, r)) by (apply span_app; [exact Hd|now apply sepr_nodigit]).
  assert (H48 : d = 48 -> n = 0 /\ ds = []).
  { intros ->. destruct (N.eq_dec n 0) as [->|Hn0]; [auto|]. exfalso. apply Hnz; [lia|reflexivity]. }
  unfold p_uint.
  assert (Hlt : lit_text ((d :: ds) ++ r) = Some (d :: ds, r)).
  { unfold lit_text.
    assert (Hhex : lit_hex ((d :: ds) ++ r) = None).
    { unfold lit_hex. cbn [app]. destruct (ds ++ r) as [|c2 t] eqn:E2; [reflexivity|].
      destruct (d =? 48) eqn:E48; [|reflexivity]. cbn [andb]. destruct (c2 =? 120) eqn:E120; [|reflexivity]. exfalso.
      apply N.eqb_eq in E48, E120. subst c2. destruct (H48 E48) as [_ ->]. cbn [app] in E2. rewrite E2 in Hr. discriminate Hr. }
    rewrite Hhex.
    assert (Hoct : lit_oct ((d :: ds) ++ r) = None).
    { unfold lit_oct. cbn [app]. destruct (d =? 48) eqn:E48; [|reflexivity]. apply N.eqb_eq in E48.
      destruct (H48 E48) as [_ ->]. cbn [app].
      destruct r as [|c r']; [reflexivity|]. simpl in Hr. apply not_idc in Hr as [_ Hdg]. cbn [span].
      destruct (is_octdigit c) eqn:Eo; [apply octdigit_digit in Eo; congruence|reflexivity]. }
    rewrite Hoct. unfold lit_dec. rewrite Hsp. reflexivity. }
  rewrite Hlt.
  assert (Hpu : parse_uint_go (d :: ds) = Some n).
  { unfold parse_uint_go. destruct (d =? 48) eqn:E48.
    - apply N.eqb_eq in E48. destruct (H48 E48) as [-> ->]. reflexivity.
    - rewrite digits_val_dec; [now rewrite Hv|exact Hd|now rewrite Hv]. }
  now rewrite Hpu.
Qed.
