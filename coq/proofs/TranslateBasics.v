(* C03, part 1: Compile only looks at operand indexes; the object heap of Translate only ever grows or
   renames; the program builders of program.go against the denotational state. *)
From Coq Require Import String.
From Coq Require Import List NArith ZArith Lia Bool Arith.
From AV Require Import model.Proto model.Chain model.Ast model.Ir model.Printer model.Peg model.Translate.
From AV Require model.Program.
Import ListNotations.
Open Scope Z_scope.

(* ---------- index-level view of instructions ---------- *)
Inductive zop := ZAdd (x y : Z) | ZDouble (x : Z) | ZShift (x : Z) (s : N).
Definition zinstr := (Z * zop)%type.

Definition zstep (p : list op) (o : zop) : list op * outcome Z :=
  match o with
  | ZAdd x y => Program.add p x y
  | ZDouble x => Program.double p x
  | ZShift x s => Program.shift p x s
  end.
Fixpoint compile_z (p : list op) (zs : list zinstr) : outcome (list op) :=
  match zs with
  | [] => Ok p
  | (o, z) :: r =>
      let '(p', res) := zstep p z in
      obind res (fun out => if out =? o then compile_z p' r else Err ($"outindex"))
  end.

Definition strip (i : instr) : zinstr :=
  (oindex (iout i),
   match iopn i with
   | IAdd x y => ZAdd (oindex x) (oindex y)
   | IDouble x => ZDouble (oindex x)
   | IShift x s => ZShift (oindex x) s
   end).

Lemma compile_loop_strip is : forall p, compile_loop p is = compile_z p (map strip is).
Proof.
  induction is as [|i is IH]; intros p; [reflexivity|]. cbn [compile_loop map compile_z].
  unfold strip at 1. unfold compile_step.
  destruct (iopn i); cbn [zstep];
  match goal with |- context [let '(_, _) := ?X in _] => destruct X as [p' res] end;
  destruct res; cbn [obind]; try reflexivity;
  match goal with |- context [if ?b then _ else _] => destruct b end; auto.
Qed.

Lemma compile_z_app a : forall p b, compile_z p (a ++ b) = obind (compile_z p a) (fun p' => compile_z p' b).
Proof.
  induction a as [|[o z] a IH]; intros p b; [reflexivity|]. cbn [app compile_z].
  destruct (zstep p z) as [p' res]. destruct res; cbn [obind]; try reflexivity.
  destruct (a0 =? o); [apply IH|reflexivity].
Qed.

(* ---------- the heap ---------- *)
Definition idx (objs : list operand) (id : nat) : option Z := option_map oindex (nth_error objs id).

Definition zop_of (objs : list operand) (o : top) : option zop :=
  match o with
  | TAdd x y => match idx objs x, idx objs y with Some a, Some b => Some (ZAdd a b) | _, _ => None end
  | TDouble x => option_map ZDouble (idx objs x)
  | TShift x s => option_map (fun a => ZShift a s) (idx objs x)
  end.
Definition zinstr_of (objs : list operand) (i : tinstr) : option zinstr :=
  match idx objs (tout i), zop_of objs (topn i) with
  | Some o, Some z => Some (o, z)
  | _, _ => None
  end.
Definition zview (objs : list operand) (is : list tinstr) : option (list zinstr) := map_opt (zinstr_of objs) is.

(* objs' has every object of objs, with the same index (names may differ) *)
Definition ext (objs objs' : list operand) : Prop :=
  forall id i, idx objs id = Some i -> idx objs' id = Some i.

Lemma ext_refl o : ext o o.
Proof. intros id i H. exact H. Qed.
Lemma ext_trans a b c : ext a b -> ext b c -> ext a c.
Proof. intros H1 H2 id i H. auto. Qed.

Lemma idx_app_l objs o id i : idx objs id = Some i -> idx (objs ++ [o]) id = Some i.
Proof.
  unfold idx. destruct (nth_error objs id) eqn:E; [|discriminate].
  rewrite nth_error_app1 by (apply nth_error_Some; congruence). now rewrite E.
Qed.
Lemma ext_app objs o : ext objs (objs ++ [o]).
Proof. intros id i. apply idx_app_l. Qed.
Lemma idx_new objs o : idx (objs ++ [o]) (length objs) = Some (oindex o).
Proof. unfold idx. rewrite nth_error_app2 by lia. now rewrite Nat.sub_diag. Qed.

Lemma idx_lt objs id i : idx objs id = Some i -> (id < length objs)%nat.
Proof. unfold idx. destruct (nth_error objs id) eqn:E; [|discriminate]. intros _. apply nth_error_Some. congruence. Qed.
Lemma idx_some objs id : (id < length objs)%nat -> exists i, idx objs id = Some i.
Proof.
  intros H. unfold idx. destruct (nth_error objs id) eqn:E; [eexists; reflexivity|].
  apply nth_error_None in E. lia.
Qed.

Lemma set_name_length objs id name : length (set_name objs id name) = length objs.
Proof.
  unfold set_name. destruct (nth_error objs id) eqn:E; [|reflexivity].
  assert (id < length objs)%nat by (apply nth_error_Some; congruence).
  rewrite !app_length, firstn_length, skipn_length. simpl. lia.
Qed.

Lemma nth_error_replace {A} (l : list A) : forall id (x : A) k, (id < length l)%nat ->
  nth_error (firstn id l ++ [x] ++ skipn (S id) l) k = if (k =? id)%nat then Some x else nth_error l k.
Proof.
  induction l as [|a l IH]; intros id x k H; [simpl in H; lia|].
  destruct id as [|id]; destruct k as [|k]; cbn [firstn skipn app nth_error Nat.eqb]; auto.
  apply IH. simpl in H. lia.
Qed.

Lemma idx_set_name objs id name k : idx (set_name objs id name) k = idx objs k.
Proof.
  unfold set_name. destruct (nth_error objs id) as [o|] eqn:E; [|reflexivity].
  assert (Hid : (id < length objs)%nat) by (apply nth_error_Some; congruence).
  unfold idx. rewrite nth_error_replace by exact Hid.
  destruct (k =? id)%nat eqn:Ek; [|reflexivity]. apply Nat.eqb_eq in Ek. subst k. now rewrite E.
Qed.
Lemma ext_set_name objs id name : ext objs (set_name objs id name).
Proof. intros k i H. now rewrite idx_set_name. Qed.

Lemma zop_of_ext objs objs' o z : ext objs objs' -> zop_of objs o = Some z -> zop_of objs' o = Some z.
Proof.
  intros He. destruct o as [x y|x|x s]; cbn [zop_of].
  - destruct (idx objs x) eqn:Ex; [|discriminate]. destruct (idx objs y) eqn:Ey; [|discriminate].
    now rewrite (He _ _ Ex), (He _ _ Ey).
  - destruct (idx objs x) eqn:Ex; [|discriminate]. now rewrite (He _ _ Ex).
  - destruct (idx objs x) eqn:Ex; [|discriminate]. now rewrite (He _ _ Ex).
Qed.
Lemma zinstr_of_ext objs objs' i z : ext objs objs' -> zinstr_of objs i = Some z -> zinstr_of objs' i = Some z.
Proof.
  intros He. unfold zinstr_of. destruct (idx objs (tout i)) eqn:Eo; [|discriminate].
  destruct (zop_of objs (topn i)) eqn:Ez; [|discriminate].
  now rewrite (He _ _ Eo), (zop_of_ext _ _ _ _ He Ez).
Qed.
Lemma zview_ext objs objs' is zs : ext objs objs' -> zview objs is = Some zs -> zview objs' is = Some zs.
Proof.
  intros He. unfold zview. revert zs. induction is as [|i is IH]; intros zs; cbn [map_opt]; [auto|].
  destruct (zinstr_of objs i) eqn:Ei; [|discriminate]. destruct (map_opt (zinstr_of objs) is) eqn:Er; [|discriminate].
  rewrite (zinstr_of_ext _ _ _ _ He Ei), (IH _ eq_refl). auto.
Qed.

Lemma map_opt_app {A B} (f : A -> option B) a b :
  map_opt f (a ++ b) = match map_opt f a, map_opt f b with Some x, Some y => Some (x ++ y) | _, _ => None end.
Proof.
  induction a as [|x a IH]; cbn [app map_opt].
  - destruct (map_opt f b); reflexivity.
  - destruct (f x); [|reflexivity]. rewrite IH. destruct (map_opt f a); [|reflexivity].
    destruct (map_opt f b); reflexivity.
Qed.

(* resolving against the heap and stripping = the index-level view *)
Lemma resolve_strip objs i : match resolve_instr objs i with
                            | Some r => zinstr_of objs i = Some (strip r)
                            | None => zinstr_of objs i = None
                            end.
Proof.
  unfold resolve_instr, zinstr_of, idx. destruct (nth_error objs (tout i)) as [o|]; [|reflexivity].
  cbn [option_map]. destruct (topn i) as [x y|x|x s]; cbn [resolve_op zop_of]; unfold idx.
  - destruct (nth_error objs x); [|reflexivity]. destruct (nth_error objs y); reflexivity.
  - destruct (nth_error objs x); reflexivity.
  - destruct (nth_error objs x); reflexivity.
Qed.
Lemma resolve_zview objs is : match map_opt (resolve_instr objs) is with
                              | Some p => zview objs is = Some (map strip p)
                              | None => zview objs is = None
                              end.
Proof.
  unfold zview. induction is as [|i is IH]; cbn [map_opt]; [reflexivity|].
  pose proof (resolve_strip objs i) as H. destruct (resolve_instr objs i).
  - rewrite H. destruct (map_opt (resolve_instr objs) is); rewrite IH; reflexivity.
  - now rewrite H.
Qed.

(* ---------- program.go builders against the denotational state ---------- *)
Definition sane (ds : dstate) : Prop :=
  evaluate (dops ds) = Ok (dvals ds) /\ length (dvals ds) = S (length (dops ds)).

Lemma evaluate_from_app p : forall c q, evaluate_from c (p ++ q) = obind (evaluate_from c p) (fun c' => evaluate_from c' q).
Proof.
  induction p as [|[i j] p IH]; intros c q; [reflexivity|]. cbn [app evaluate_from].
  destruct (nth_error c i); [|reflexivity]. destruct (nth_error c j); [|reflexivity]. apply IH.
Qed.

Lemma exists_at_spec ds i : exists_at ds i = true -> 0 <= i < Z.of_nat (length (dvals ds)).
Proof. unfold exists_at. intros H. apply andb_true_iff in H as [H1 H2]. apply Z.leb_le in H1. apply Z.ltb_lt in H2. lia. Qed.

Lemma val_at_nth ds i : exists_at ds i = true -> nth_error (dvals ds) (Z.to_nat i) = Some (val_at ds i).
Proof.
  intros H. apply exists_at_spec in H. unfold val_at. apply nth_error_nth'. lia.
Qed.

Lemma boundscheck_ok ds i : sane ds -> exists_at ds i = true -> Program.boundscheck (dops ds) i = Ok tt.
Proof.
  intros [_ Hl] H. apply exists_at_spec in H. unfold Program.boundscheck.
  replace (i <? 0) with false by (symmetry; apply Z.ltb_ge; lia).
  replace (i >? Z.of_nat (length (dops ds))) with false; [reflexivity|].
  symmetry. rewrite Z.gtb_ltb. apply Z.ltb_ge. lia.
Qed.
Lemma boundscheck_bad ds i : sane ds -> exists_at ds i = false -> exists cls, Program.boundscheck (dops ds) i = Err cls.
Proof.
  intros [_ Hl] H. unfold Program.boundscheck. destruct (i <? 0) eqn:E0; [eauto|].
  apply Z.ltb_ge in E0. unfold exists_at in H. apply andb_false_iff in H as [H|H].
  - apply Z.leb_gt in H. lia.
  - apply Z.ltb_ge in H. replace (i >? Z.of_nat (length (dops ds))) with true; [eauto|].
    symmetry. rewrite Z.gtb_ltb. apply Z.ltb_lt. lia.
Qed.

Lemma sane_append ds i j : sane ds -> exists_at ds i = true -> exists_at ds j = true ->
  sane (append ds (val_at ds i + val_at ds j) (Z.to_nat i, Z.to_nat j)).
Proof.
  intros [He Hl] Hi Hj. split; cbn [append dops dvals].
  - unfold evaluate in *. rewrite evaluate_from_app, He. cbn [obind evaluate_from].
    now rewrite (val_at_nth ds i Hi), (val_at_nth ds j Hj).
  - rewrite !app_length. simpl. lia.
Qed.

Lemma add_ok ds i j : sane ds -> exists_at ds i = true -> exists_at ds j = true ->
  Program.add (dops ds) i j = (dops ds ++ [(Z.to_nat i, Z.to_nat j)], Ok (Z.of_nat (length (dvals ds)))).
Proof.
  intros Hs Hi Hj. unfold Program.add. rewrite (boundscheck_ok ds i Hs Hi), (boundscheck_ok ds j Hs Hj).
  destruct Hs as [_ Hl]. rewrite app_length, Hl. simpl. do 3 f_equal. lia.
Qed.
Lemma add_bad ds i j : sane ds -> exists_at ds i && exists_at ds j = false ->
  exists p cls, Program.add (dops ds) i j = (p, Err cls).
Proof.
  intros Hs H. unfold Program.add. destruct (exists_at ds i) eqn:Ei.
  - rewrite (boundscheck_ok ds i Hs Ei). cbn [andb] in H.
    destruct (boundscheck_bad ds j Hs H) as (cls & ->). cbn [obind]. eauto.
  - destruct (boundscheck_bad ds i Hs Ei) as (cls & ->). cbn [obind]. eauto.
Qed.

(* Program.Shift: s doublings *)
Lemma shift_loop_ok s : forall ds i, sane ds -> exists_at ds i = true ->
  let ds' := doublings s ds i in
  Program.shift_loop s (dops ds) i = (dops ds', Ok (if (s =? 0)%nat then i else newest ds')) /\
  sane ds' /\ length (dvals ds') = (length (dvals ds) + s)%nat /\ denv ds' = denv ds.
Proof.
  induction s as [|s IH]; intros ds i Hs Hi; cbn [doublings Program.shift_loop].
  - split; [reflexivity|]. split; [exact Hs|]. split; [lia|reflexivity].
  - unfold Program.double. rewrite (add_ok ds i i Hs Hi Hi).
    set (ds1 := append ds (2 * val_at ds i) (Z.to_nat i, Z.to_nat i)).
    assert (Hs1 : sane ds1).
    { unfold ds1. replace (2 * val_at ds i) with (val_at ds i + val_at ds i) by lia. now apply sane_append. }
    assert (Hn1 : newest ds1 = Z.of_nat (length (dvals ds))).
    { unfold newest, ds1. cbn [append dvals]. rewrite app_length. simpl. lia. }
    assert (Hi1 : exists_at ds1 (newest ds1) = true).
    { unfold exists_at. rewrite Hn1. unfold ds1. cbn [append dvals]. rewrite app_length. simpl.
      apply andb_true_iff. split; [apply Z.leb_le|apply Z.ltb_lt]; lia. }
    change (dops ds ++ [(Z.to_nat i, Z.to_nat i)]) with (dops ds1).
    rewrite <- Hn1. destruct (IH ds1 (newest ds1) Hs1 Hi1) as (E & Hs' & Hl' & Hv'). rewrite E.
    split; [|split; [exact Hs'|split]].
    + f_equal. f_equal. destruct s; [reflexivity|reflexivity].
    + rewrite Hl'. unfold ds1. cbn [append dvals]. rewrite app_length. simpl. lia.
    + rewrite Hv'. reflexivity.
Qed.

Lemma shift_loop_bad s ds i : sane ds -> exists_at ds i = false ->
  exists p cls, Program.shift_loop (S s) (dops ds) i = (p, Err cls).
Proof.
  intros Hs Hi. cbn [Program.shift_loop]. unfold Program.double.
  destruct (add_bad ds i i Hs) as (p & cls & ->); [now rewrite Hi|]. eauto.
Qed.
