(* C08, continued-fraction family: every strategy proposes 2 <= k < n (good_K); for any such strategy
   chain/minchain return a chain ending at the largest value and containing every value, and the
   recursion depth is bounded by a lexicographic measure, which the entry point's fuel exceeds. *)
From Coq Require Import String.
From Coq Require Import List ZArith NArith Lia Bool Arith.
From AV Require Import model.Proto model.Bits model.Lists model.Chain model.Heuristic model.Contfrac
  proofs.SeqAux proofs.HeuristicProofs.
Import ListNotations.
Open Scope Z_scope.

(* ---------- the strategies ---------- *)
Definition good_K (s : strategy) : Prop := forall n, 5 <= n ->
  exists ks, strategy_K s n = Ok ks /\ ks <> [] /\ forall k, In k ks -> 2 <= k < n.

Lemma shiftr1 n : Z.shiftr n 1 = n / 2.
Proof. rewrite Z.shiftr_div_pow2 by lia. reflexivity. Qed.

Lemma single_good (k n : Z) : 2 <= k < n -> [k] <> [] /\ forall k', In k' [k] -> 2 <= k' < n.
Proof. intros H. split; [discriminate|]. intros k' [<-|[]]. exact H. Qed.

Lemma binary_good : good_K Binary.
Proof.
  intros n Hn. exists [Z.shiftr n 1]. split; [reflexivity|]. apply single_good. rewrite shiftr1.
  split; [apply Z.div_le_lower_bound; lia|apply Z.div_lt_upper_bound; lia].
Qed.

Lemma cobinary_good : good_K CoBinary.
Proof.
  intros n Hn. eexists. split; [reflexivity|]. apply single_good. rewrite shiftr1.
  destruct (Z.testbit n 0).
  - split; [apply Z.div_le_lower_bound; lia|apply Z.div_lt_upper_bound; lia].
  - split; [apply Z.div_le_lower_bound; lia|apply Z.div_lt_upper_bound; lia].
Qed.

Lemma dichotomic_good : good_K Dichotomic.
Proof.
  intros n Hn. eexists. split; [reflexivity|]. apply single_good.
  unfold pow2. rewrite Z.shiftl_1_l. pose proof (bitlen_pos n ltac:(lia)) as [Hlo Hhi].
  remember (bitlen n) as l eqn:El. clear El. remember (l / 2)%N as h eqn:Eh.
  assert (Hl3 : (3 <= l)%N).
  { destruct (N.lt_ge_cases l 3) as [Hlt|]; [|assumption]. exfalso.
    assert (H4 : 2 ^ Z.of_N l <= 4) by (change 4 with (2 ^ 2); apply Z.pow_le_mono_r; lia). lia. }
  assert (Hh : (2 * h <= l /\ l < 2 * h + 2)%N).
  { pose proof (N.div_mod l 2 ltac:(lia)) as A. pose proof (N.mod_lt l 2 ltac:(lia)) as B. rewrite <- Eh in A.
    remember (l mod 2)%N as r0. lia. }
  clear Eh.
  assert (Hh1 : (1 <= h)%N) by lia.
  assert (Hgap : Z.of_N h + 1 <= Z.of_N l - 1) by lia.
  assert (HP : 2 * 2 ^ Z.of_N h <= n).
  { replace (2 * 2 ^ Z.of_N h) with (2 ^ (Z.of_N h + 1)) by (rewrite Z.pow_add_r by lia; lia).
    etransitivity; [apply Z.pow_le_mono_r; [lia|exact Hgap]|exact Hlo]. }
  assert (HP2 : 2 <= 2 ^ Z.of_N h).
  { change 2 with (2 ^ 1) at 1. apply Z.pow_le_mono_r; lia. }
  split.
  - apply Z.div_le_lower_bound; lia.
  - apply Z.div_lt_upper_bound; nia.
Qed.

Lemma sqrt_good : good_K Sqrt.
Proof.
  intros n Hn. exists [Z.sqrt n]. split.
  - cbn [strategy_K]. replace (n <? 0) with false by (symmetry; apply Z.ltb_ge; lia). reflexivity.
  - apply single_good. pose proof (Z.sqrt_spec n ltac:(lia)) as [H1 H2].
    pose proof (Z.sqrt_nonneg n). nia.
Qed.

Lemma total_good : good_K Total.
Proof.
  intros n Hn. eexists. split; [reflexivity|]. split.
  - destruct (Z.to_nat (n - 2)) as [|m] eqn:E; [lia|discriminate].
  - intros k Hk. apply in_map_iff in Hk as (i & <- & Hi). apply in_seq in Hi. lia.
Qed.

Lemma dyadic_loop_in : forall fuel k z, In z (dyadic_loop fuel k) -> 1 < z <= k.
Proof.
  induction fuel as [|f IH]; intros k z Hz; [destruct Hz|]. cbn [dyadic_loop] in Hz.
  destruct (1 <? k) eqn:E; [|destruct Hz]. apply Z.ltb_lt in E. destruct Hz as [<-|Hz]; [lia|].
  apply IH in Hz. rewrite shiftr1 in Hz. assert (k / 2 <= k) by (apply Z.div_le_upper_bound; lia). lia.
Qed.

Lemma dyadic_good : good_K Dyadic.
Proof.
  intros n Hn. eexists. split; [reflexivity|]. rewrite shiftr1.
  assert (H2 : 2 <= n / 2) by (apply Z.div_le_lower_bound; lia).
  assert (Hlt : n / 2 < n) by (apply Z.div_lt_upper_bound; lia).
  split.
  - cbn [dyadic_loop]. replace (1 <? n / 2) with true by (symmetry; apply Z.ltb_lt; lia). discriminate.
  - intros k Hk. apply dyadic_loop_in in Hk. lia.
Qed.

Lemma fermat_loop_in : forall fuel k s z, 0 <= s -> In z (fermat_loop fuel k s) -> 1 < z <= k.
Proof.
  induction fuel as [|f IH]; intros k s z Hs Hz; [destruct Hz|]. cbn [fermat_loop] in Hz.
  destruct (1 <? k) eqn:E; [|destruct Hz]. apply Z.ltb_lt in E. destruct Hz as [<-|Hz]; [lia|].
  apply IH in Hz; [|lia]. rewrite Z.shiftr_div_pow2 in Hz by assumption.
  assert (0 < 2 ^ s) by (apply Z.pow_pos_nonneg; lia).
  assert (k / 2 ^ s <= k) by (apply Z.div_le_upper_bound; nia). lia.
Qed.

Lemma fermat_good : good_K Fermat.
Proof.
  intros n Hn. eexists. split; [reflexivity|]. rewrite shiftr1.
  assert (H2 : 2 <= n / 2) by (apply Z.div_le_lower_bound; lia).
  assert (Hlt : n / 2 < n) by (apply Z.div_lt_upper_bound; lia).
  split.
  - cbn [fermat_loop]. replace (1 <? n / 2) with true by (symmetry; apply Z.ltb_lt; lia). discriminate.
  - intros k Hk. apply fermat_loop_in in Hk; lia.
Qed.

Theorem all_good_K : forall s, good_K s.
Proof.
  intros []; [apply binary_good|apply cobinary_good|apply dichotomic_good|apply sqrt_good|
              apply total_good|apply dyadic_good|apply fermat_good].
Qed.

(* ---------- auxiliary: all_ok, shortest ---------- *)
Lemma all_ok_spec {A B} (g : A -> outcome B) : forall ks,
  match all_ok (map g ks) with
  | Ok cs => length cs = length ks /\ forall c, In c cs -> exists k, In k ks /\ g k = Ok c
  | Err e => exists k, In k ks /\ g k = Err e
  | Panic e => exists k, In k ks /\ g k = Panic e
  | OutOfFuel => exists k, In k ks /\ g k = OutOfFuel
  end.
Proof.
  induction ks as [|k ks IH]; [simpl; split; [reflexivity|intros c []]|].
  cbn [map all_ok]. destruct (g k) as [c|e|e|] eqn:Ek; cbn [obind]; try (exists k; split; [simpl; auto|assumption]).
  destruct (all_ok (map g ks)) as [cs|e|e|]; cbn [obind].
  - destruct IH as [Hl Hc]. split; [simpl; congruence|].
    intros c' [<-|Hc']; [exists k; split; [simpl; auto|assumption]|].
    destruct (Hc c' Hc') as (k' & Hk' & E). exists k'. split; [simpl; auto|assumption].
  - destruct IH as (k' & Hk' & E). exists k'. split; [simpl; auto|assumption].
  - destruct IH as (k' & Hk' & E). exists k'. split; [simpl; auto|assumption].
  - destruct IH as (k' & Hk' & E). exists k'. split; [simpl; auto|assumption].
Qed.

Lemma shortest_in cs : forall best, In (shortest cs best) cs \/ shortest cs best = best.
Proof.
  induction cs as [|x cs IH]; intros best; [right; reflexivity|]. cbn [shortest].
  destruct (match best with [] => true | _ :: _ => false end || (length x <? length best)%nat).
  - destruct (IH x) as [H|H]; [left; right; exact H|left; left; symmetry; exact H].
  - destruct (IH best) as [H|H]; [left; right; exact H|right; exact H].
Qed.

Lemma shortest_nil_in c cs : In (shortest (c :: cs) []) (c :: cs).
Proof.
  cbn [shortest orb]. destruct (shortest_in cs c) as [H|H]; [right; exact H|left; symmetry; exact H].
Qed.

Lemma insert_length xs x : (length (insert_sorted_unique xs x) <= S (length xs))%nat.
Proof.
  unfold insert_sorted_unique. induction xs as [|y t IH].
  - rewrite merge_unique_nil_r. simpl. lia.
  - rewrite merge_unique_cons. destruct (x ?= y); rewrite ?merge_unique_nil_l; simpl in *; lia.
Qed.

(* ---------- chain / minchain ---------- *)
Definition pre (ns : list Z) : Prop := ns <> [] /\ nd ns /\ forall x, In x ns -> 1 <= x.
Definition Good (c ns : list Z) : Prop := CL c /\ last c 0 = last ns 0 /\ forall t, In t ns -> In t c.

Definition argpre (L : Z) (a : list Z + Z) : Prop :=
  match a with
  | inl ns => pre ns /\ Z.of_nat (length ns) <= L
  | inr n => 1 <= n
  end.
Definition argns (a : list Z + Z) : list Z := match a with inl ns => ns | inr n => [n] end.

(* recursion depth: lexicographic (largest value, phase), phases ordered
   dividing chain with the maximum repeated > base-case chain > minchain > dividing chain *)
Definition phase (ns : list Z) : Z :=
  match rev ns with
  | [] => 0
  | [_] => 2
  | n :: m :: _ => if m <=? 1 then 2 else if m =? n then 2 + Z.of_nat (length ns) else 0
  end.
Definition depth (L : Z) (a : list Z + Z) : Z :=
  match a with
  | inr n => (L + 4) * n + 1
  | inl ns => (L + 4) * last ns 0 + phase ns
  end.

Lemma phase_bounds ns : 0 <= phase ns <= 2 + Z.of_nat (length ns).
Proof.
  unfold phase. destruct (rev ns) as [|n [|m rr]]; try lia.
  destruct (m <=? 1); [lia|]. destruct (m =? n); lia.
Qed.

Lemma small_not_pow2 n : 1 <= n -> is_pow2 n = false -> n =? 3 = false -> 5 <= n.
Proof.
  intros H1 Hp H3. assert (C : n = 1 \/ n = 2 \/ n = 3 \/ n = 4 \/ 5 <= n) by lia.
  destruct C as [->|[->|[->|[->|C]]]]; try discriminate; assumption.
Qed.

Section Main.
Variable s : strategy.
Hypothesis HK : good_K s.
Variable L : Z.
Hypothesis HL : 2 <= L.

Theorem cf_spec : forall fuel a, argpre L a ->
  match cf s fuel a with
  | Ok c => Good c (argns a)
  | OutOfFuel => Z.of_nat fuel <= depth L a
  | _ => False
  end.
Proof using HK HL.
  induction fuel as [|f IH]; intros a Hpre.
  { cbn [cf]. destruct a as [ns|n]; cbn [depth argpre] in *.
    - destruct Hpre as [(Hne & Hnd & Hge) _]. pose proof (phase_bounds ns).
      pose proof (Hge _ (last_in ns 0 Hne)). nia.
    - nia. }
  cbn [cf]. unfold cf_body. destruct a as [ns|n].
  - (* chain(ns) *)
    destruct Hpre as [(Hne & Hnd & Hge) Hlen]. cbn [argns].
    remember (depth L (inl ns)) as D eqn:ED. cbn [depth] in ED. unfold phase in ED.
    assert (Ens : ns = rev (rev ns)) by (symmetry; apply rev_involutive).
    destruct (rev ns) as [|n [|m rr]] eqn:Er.
    + simpl in Ens. congruence.
    + simpl in Ens. subst ns. cbn [last] in ED.
      assert (Hn1 : 1 <= n) by (apply Hge; simpl; auto).
      specialize (IH (inr n) Hn1). cbn [argns depth] in IH.
      destruct (cf s f (inr n)) as [c|e|e|]; try exact IH. lia.
    + cbn [rev] in Ens. set (rem := rev rr ++ [m]) in *.
      assert (Hns : ns = rem ++ [n]) by exact Ens.
      assert (Hlast : last ns 0 = n) by (rewrite Hns; apply last_last).
      rewrite Hns in Hnd. apply nd_app_inv in Hnd as (Hndr & _ & Hrn).
      assert (Hlr : last rem 0 = m) by (unfold rem; apply last_last).
      assert (Hrem_ne : rem <> []) by (unfold rem; intros E; apply app_eq_nil in E as [_ E]; discriminate).
      assert (Hmn : m <= n) by (apply Hrn; [unfold rem; apply in_or_app; simpl; auto|simpl; auto]).
      assert (Hrem_le : forall t, In t rem -> t <= m) by (intros t Ht; rewrite <- Hlr; now apply nd_last_max).
      assert (Hrem_ge : forall t, In t rem -> 1 <= t) by (intros t Ht; apply Hge; rewrite Hns; apply in_or_app; auto).
      assert (Hn1 : 1 <= n) by (apply Hge; rewrite Hns; apply in_or_app; simpl; auto).
      assert (Hlenr : length ns = S (length rem)) by (rewrite Hns, app_length; simpl; lia).
      rewrite Hlast in ED.
      destruct (m <=? 1) eqn:Em.
      * apply Z.leb_le in Em. specialize (IH (inr n) Hn1). cbn [argns depth] in IH.
        destruct (cf s f (inr n)) as [c|e|e|]; try exact IH; [|lia].
        destruct IH as (HCL & Hl & Hc).
        split; [exact HCL|]. split; [rewrite Hlast; exact Hl|].
        intros t Ht. rewrite Hns in Ht. apply in_app_or in Ht as [Ht|[<-|[]]]; [|apply Hc; simpl; auto].
        assert (Et : t = 1) by (specialize (Hrem_le t Ht); specialize (Hrem_ge t Ht); lia). rewrite Et. apply HCL.
      * apply Z.leb_gt in Em.
        change (rev (m :: rr)) with rem.
        assert (Hq1 : 1 <= n / m) by (apply Z.div_le_lower_bound; lia).
        pose proof (Z.div_mod n m ltac:(lia)) as Hdm. pose proof (Z.mod_pos_bound n m ltac:(lia)) as Hml.
        set (q := n / m) in *. set (r := n mod m) in *.
        assert (Hdq : depth L (inr q) + 1 <= D).
        { rewrite ED. cbn [depth]. destruct (m =? n) eqn:Emn.
          - apply Z.eqb_eq in Emn. assert (q = 1) by (unfold q; rewrite Emn; apply Z.div_same; lia). nia.
          - apply Z.eqb_neq in Emn. assert (q <= n - 1) by nia. nia. }
        pose proof (IH (inr q) Hq1) as IHq. cbn [argns] in IHq.
        destruct (cf s f (inr q)) as [cq|e|e|]; cbn [obind]; try exact IHq;
          [|lia].
        destruct IHq as (HCLq & Hlq & _). cbn [last] in Hlq.
        assert (Hdsub : forall ns', last ns' 0 = m -> (length ns' <= length ns)%nat ->
                 (m = n -> (length ns' < length ns)%nat) -> depth L (inl ns') + 1 <= D).
        { intros ns' Hl' Hlen' Hlen''. rewrite ED. cbn [depth]. rewrite Hl'. pose proof (phase_bounds ns').
          destruct (m =? n) eqn:Emn.
          - apply Z.eqb_eq in Emn. specialize (Hlen'' Emn). subst m. lia.
          - apply Z.eqb_neq in Emn. nia. }
        destruct (r =? 0) eqn:Ez.
        -- apply Z.eqb_eq in Ez.
           assert (Hpre0 : argpre L (inl rem)) by (split; [split; [assumption|split; assumption]|lia]).
           pose proof (IH (inl rem) Hpre0) as IH0. cbn [argns] in IH0.
           assert (Hd0 : depth L (inl rem) + 1 <= D) by (apply Hdsub; [assumption|lia|lia]).
           destruct (cf s f (inl rem)) as [c0|e|e|]; cbn [obind]; try exact IH0;
             [|lia].
           destruct IH0 as (HCL0 & Hl0 & Hc0).
           destruct (product_ok c0 cq HCL0 HCLq) as (p & Ep & HCLp & Hlp & Hsub). rewrite Ep.
           assert (Hlpn : last p 0 = n) by (rewrite Hlp, Hl0, Hlr, Hlq; nia).
           split; [exact HCLp|]. split; [now rewrite Hlast|].
           intros t Ht. rewrite Hns in Ht. apply in_app_or in Ht as [Ht|[<-|[]]]; [apply Hsub, Hc0, Ht|].
           rewrite <- Hlpn. apply last_in, CL_nonempty, HCLp.
        -- apply Z.eqb_neq in Ez.
           assert (Hmn' : m <> n).
           { intros ->. unfold r in Ez. rewrite Z.mod_same in Ez by lia. congruence. }
           assert (Hpre' : argpre L (inl (insert_sorted_unique rem r))).
           { split; [split; [|split]|].
             - intros E. assert (Hx : In r (insert_sorted_unique rem r)) by (apply insert_in; auto). rewrite E in Hx. destruct Hx.
             - now apply insert_nd.
             - intros x Hx. apply insert_in in Hx as [->|Hx]; [lia|auto].
             - pose proof (insert_length rem r). lia. }
           assert (Hl' : last (insert_sorted_unique rem r) 0 = m) by (rewrite last_insert by (auto; lia); exact Hlr).
           pose proof (IH _ Hpre') as IH0. cbn [argns] in IH0.
           assert (Hd0 : depth L (inl (insert_sorted_unique rem r)) + 1 <= D).
           { apply Hdsub; [assumption|pose proof (insert_length rem r); lia|intros; congruence]. }
           destruct (cf s f (inl (insert_sorted_unique rem r))) as [c0|e|e|]; cbn [obind]; try exact IH0;
             [|lia].
           destruct IH0 as (HCL0 & Hl0 & Hc0). rewrite Hl' in Hl0.
           destruct (product_ok c0 cq HCL0 HCLq) as (p & Ep & HCLp & Hlp & Hsub). rewrite Ep. cbn [obind].
           assert (Hr_in : In r p) by (apply Hsub, Hc0, insert_in; auto).
           destruct (plus_ok p r HCLp Hr_in) as (p2 & Ep2 & HCLs & Hls & Hsub2). rewrite Ep2.
           assert (Hlsn : last p2 0 = n) by (rewrite Hls, Hlp, Hl0, Hlq; nia).
           split; [exact HCLs|]. split; [now rewrite Hlast|].
           intros t Ht. rewrite Hns in Ht. apply in_app_or in Ht as [Ht|[<-|[]]].
           ++ apply Hsub2, Hsub, Hc0, insert_in. auto.
           ++ rewrite <- Hlsn. apply last_in, CL_nonempty, HCLs.
  - (* minchain(n) *)
    cbn [argpre] in Hpre. cbn [argns depth]. destruct (is_pow2 n) eqn:Ep.
    + destruct (is_pow2_spec n ltac:(lia) Ep) as (e & En & _). rewrite En, pow2_upto_pow.
      destruct (pows_CL e) as [HCL Hl]. split; [exact HCL|]. split; [rewrite Hl; reflexivity|].
      intros t [<-|[]]. rewrite <- Hl. apply last_in, CL_nonempty, HCL.
    + destruct (n =? 3) eqn:E3.
      * apply Z.eqb_eq in E3. subst n. split; [exact CL_123|]. split; [reflexivity|].
        intros t [<-|[]]. simpl; auto.
      * pose proof (small_not_pow2 n Hpre Ep E3) as Hn5.
        destruct (HK n Hn5) as (ks & EK & Hks_ne & Hks). rewrite EK. cbn [obind].
        pose proof (all_ok_spec (fun k => cf s f (inl [k; n])) ks) as Hall.
        assert (Hp : forall k, In k ks -> argpre L (inl [k; n])).
        { intros k Hk. destruct (Hks k Hk). split; [split; [discriminate|split]|simpl; lia].
          - simpl. repeat split; intros y Hy; simpl in Hy; intuition; subst; lia.
          - intros x [<-|[<-|[]]]; lia. }
        assert (Hd : forall k, In k ks -> depth L (inl [k; n]) = (L + 4) * n).
        { intros k Hk. destruct (Hks k Hk). cbn [depth]. unfold phase. cbn [rev app last].
          replace (k <=? 1) with false by (symmetry; apply Z.leb_gt; lia).
          replace (k =? n) with false by (symmetry; apply Z.eqb_neq; lia). lia. }
        destruct (all_ok (map (fun k => cf s f (inl [k; n])) ks)) as [cs|e|e|]; cbn [obind].
        -- destruct Hall as [Hlen Hcs]. destruct cs as [|c0 cs]; [destruct ks; [congruence|discriminate]|].
           destruct (Hcs _ (shortest_nil_in c0 cs)) as (k & Hk & Ek).
           pose proof (IH (inl [k; n]) (Hp k Hk)) as IHk. rewrite Ek in IHk. cbn [argns] in IHk.
           destruct IHk as (HCL & Hl & Hc). split; [exact HCL|]. split; [exact Hl|].
           intros t [<-|[]]. apply Hc. simpl; auto.
        -- destruct Hall as (k & Hk & Ek). pose proof (IH (inl [k; n]) (Hp k Hk)) as IHk. rewrite Ek in IHk. exact IHk.
        -- destruct Hall as (k & Hk & Ek). pose proof (IH (inl [k; n]) (Hp k Hk)) as IHk. rewrite Ek in IHk. exact IHk.
        -- destruct Hall as (k & Hk & Ek). pose proof (IH (inl [k; n]) (Hp k Hk)) as IHk. rewrite Ek in IHk.
           rewrite (Hd k Hk) in IHk. lia.
Qed.
End Main.

Definition Lof (ns : list Z) : Z := Z.of_nat (Nat.max (length ns) 2).

(* chain: partial correctness and termination for every strategy with good_K *)
Theorem cf_chain_ok s : good_K s -> forall ns, pre ns ->
  exists f0, forall fuel, (f0 <= fuel)%nat ->
  exists c, cf_chain s fuel ns = Ok c /\ is_chain c /\ asc c /\ last c 0 = last ns 0 /\ forall t, In t ns -> In t c.
Proof.
  intros HK ns Hpre. exists (S (Z.to_nat (depth (Lof ns) (inl ns)))). intros fuel Hf.
  assert (HL : 2 <= Lof ns) by (unfold Lof; lia).
  assert (Ha : argpre (Lof ns) (inl ns)) by (split; [assumption|unfold Lof; lia]).
  pose proof (cf_spec s HK (Lof ns) HL fuel (inl ns) Ha) as H. unfold cf_chain.
  destruct (cf s fuel (inl ns)) as [c|e|e|]; try (exfalso; exact H); [|lia].
  destruct H as (HCL & Hl & Hc). destruct (CL_is_chain c HCL) as [A B]. exists c. auto.
Qed.

(* partial correctness alone, any fuel *)
Theorem cf_chain_partial s : good_K s -> forall ns, pre ns -> forall fuel,
  match cf_chain s fuel ns with
  | Ok c => is_chain c /\ asc c /\ last c 0 = last ns 0 /\ forall t, In t ns -> In t c
  | OutOfFuel => True
  | _ => False
  end.
Proof.
  intros HK ns Hpre fuel.
  assert (HL : 2 <= Lof ns) by (unfold Lof; lia).
  assert (Ha : argpre (Lof ns) (inl ns)) by (split; [assumption|unfold Lof; lia]).
  pose proof (cf_spec s HK (Lof ns) HL fuel (inl ns) Ha) as H. unfold cf_chain.
  destruct (cf s fuel (inl ns)) as [c|e|e|]; try exact H; [|exact I].
  destruct H as (HCL & Hl & Hc). destruct (CL_is_chain c HCL) as [A B]. auto.
Qed.

Lemma sort_pre ts : ts <> [] -> (forall t, In t ts -> 0 < t) -> pre (sort ts).
Proof.
  intros Hne Hpos. split; [|split].
  - intros E. apply (f_equal (@length Z)) in E. rewrite sort_length in E. destruct ts; [congruence|discriminate].
  - apply sort_nd.
  - intros x Hx. apply (proj1 (sort_in ts x)) in Hx. specialize (Hpos x Hx). lia.
Qed.

(* ---------- the entry point's fuel ---------- *)
Lemma cf_iter s : forall fuel, cf s fuel = Nat.iter fuel (cf_body s) (fun _ => OutOfFuel).
Proof. induction fuel as [|f IH]; [reflexivity|]. cbn [cf]. rewrite IH. reflexivity. Qed.

Lemma cf_deep_iter s : forall n rec, cf_deep s n rec = Nat.iter (2 ^ n) (cf_body s) rec.
Proof.
  induction n as [|m IH]; intros rec; [reflexivity|].
  change (cf_deep s (S m) rec) with (cf_deep s m (cf_deep s m rec)).
  rewrite (IH (cf_deep s m rec)), (IH rec), <- iter_plus. f_equal. cbn [Nat.pow]. lia.
Qed.

Lemma cf_find_sequence_go_eq s ts : cf_find_sequence_go s ts = cf_find_sequence s (2 ^ cf_depth_bits ts) ts.
Proof. unfold cf_find_sequence_go, cf_find_sequence, cf_chain. rewrite cf_deep_iter, cf_iter. reflexivity. Qed.

Lemma depth_bits_enough ts : ts <> [] -> (forall t, In t ts -> 0 < t) ->
  depth (Lof (sort ts)) (inl (sort ts)) < Z.of_nat (2 ^ cf_depth_bits ts).
Proof.
  intros Hne Hpos. destruct (sort_pre ts Hne Hpos) as (Hsne & _ & Hge).
  cbn [depth]. pose proof (phase_bounds (sort ts)) as Hph. unfold cf_depth_bits.
  set (ns := sort ts) in *. fold (Lof ns). set (Lz := Lof ns).
  assert (HLz : Z.of_nat (length ns) <= Lz /\ 2 <= Lz) by (unfold Lz, Lof; lia).
  pose proof (Hge _ (last_in ns 0 Hsne)) as Hl1.
  pose proof (bitlen_pos (last ns 0) ltac:(lia)) as [_ Ha].
  pose proof (bitlen_pos (Lz + 4) ltac:(lia)) as [_ Hb].
  rewrite Nat2Z.inj_pow. change (Z.of_nat 2) with 2.
  rewrite Nat2Z.inj_succ, N_nat_Z, N2Z.inj_add, Z.pow_succ_r, Z.pow_add_r by lia.
  nia.
Qed.

(* Algorithm.FindSequence as the entry point runs it *)
Theorem cf_find_sequence_go_ok s : forall ts, ts <> [] -> (forall t, In t ts -> 0 < t) ->
  exists c, cf_find_sequence_go s ts = Ok c /\ is_chain c /\ asc c /\ (forall t, In t ts -> In t c) /\
            (forall x, In x c -> exists t, In t ts /\ x <= t).
Proof.
  intros ts Hne Hpos. rewrite cf_find_sequence_go_eq. unfold cf_find_sequence, cf_chain.
  pose proof (sort_pre ts Hne Hpos) as Hpre.
  assert (HL : 2 <= Lof (sort ts)) by (unfold Lof; lia).
  assert (Ha : argpre (Lof (sort ts)) (inl (sort ts))) by (split; [assumption|unfold Lof; lia]).
  pose proof (cf_spec s (all_good_K s) _ HL (2 ^ cf_depth_bits ts) (inl (sort ts)) Ha) as H.
  pose proof (depth_bits_enough ts Hne Hpos) as Hd.
  destruct (cf s (2 ^ cf_depth_bits ts) (inl (sort ts))) as [c|e|e|]; try (exfalso; exact H); [|lia].
  destruct H as (HCL & Hl & Hc). destruct (CL_is_chain c HCL) as [A B]. exists c.
  split; [reflexivity|]. split; [assumption|]. split; [assumption|]. cbn [argns] in *. split.
  - intros t Ht. apply Hc. apply sort_in. exact Ht.
  - intros x Hx. exists (last (sort ts) 0). destruct Hpre as (Hsne & _ & _). split.
    + apply (proj1 (sort_in ts _)). now apply last_in.
    + rewrite <- Hl. destruct HCL as (Hs & _). apply nd_last_max; [now apply sd_nd|assumption].
Qed.

(* ---------- both families behind find_sequence_alg ---------- *)
Definition seqalg_total (a : seqalg) : bool :=
  match a with
  | SAHeuristic hs => is_total (heur_of_list hs)
  | SAContfrac _ => true
  end.

(* a configuration that ends in a total heuristic, or any continued-fraction strategy: a chain, no error *)
Theorem find_sequence_alg_total a : seqalg_total a = true ->
  forall ts, ts <> [] -> (forall t, In t ts -> 0 < t) ->
  exists c, find_sequence_alg a ts = Ok c /\ is_chain c /\ asc c /\ (forall t, In t ts -> In t c) /\
            (forall x, In x c -> x <= 2 \/ exists t, In t ts /\ x <= t).
Proof.
  intros Ht ts Hne Hpos. destruct a as [hs|s]; cbn [find_sequence_alg seqalg_total] in *.
  - pose proof (heuristic_find_sequence_ok (heur_of_list hs) ts Hpos) as H.
    destruct (find_sequence_go (heur_of_list hs) ts) as [c|e|e|]; try (exfalso; exact H).
    + exists c. split; [reflexivity|exact H].
    + destruct H as [_ H]. congruence.
  - destruct (cf_find_sequence_go_ok s ts Hne Hpos) as (c & E & A & B & C & D).
    exists c. split; [assumption|]. split; [assumption|]. split; [assumption|]. split; [assumption|].
    intros x Hx. right. auto.
Qed.

(* any configuration: never an invalid or incomplete chain, never a panic, never out of fuel;
   the only error is "no sequence", and only from a configuration without a total heuristic *)
Theorem find_sequence_alg_sound a : forall ts, ts <> [] -> (forall t, In t ts -> 0 < t) ->
  match find_sequence_alg a ts with
  | Ok c => is_chain c /\ asc c /\ (forall t, In t ts -> In t c) /\
            (forall x, In x c -> x <= 2 \/ exists t, In t ts /\ x <= t)
  | Err e => e = noseq /\ seqalg_total a = false
  | _ => False
  end.
Proof.
  intros ts Hne Hpos. destruct a as [hs|s]; cbn [find_sequence_alg seqalg_total].
  - exact (heuristic_find_sequence_ok (heur_of_list hs) ts Hpos).
  - destruct (cf_find_sequence_go_ok s ts Hne Hpos) as (c & -> & A & B & C & D).
    split; [assumption|]. split; [assumption|]. split; [assumption|]. intros x Hx. right. auto.
Qed.

(* the value lists: the heuristic family leaves the caller's slice alone, contfrac sorts it *)
Lemma targets_after_values a ts : forall z, In z (targets_after a ts) <-> In z ts.
Proof. intros z. destruct a; cbn [targets_after]; [tauto|apply sort_in]. Qed.
Lemma targets_after_length a ts : length (targets_after a ts) = length ts.
Proof. destruct a; cbn [targets_after]; [reflexivity|apply sort_length]. Qed.

From Coq Require Import Sorted Permutation.
Lemma targets_after_perm a ts : Permutation (targets_after a ts) ts.
Proof. destruct a; cbn [targets_after]; [apply Permutation_refl|apply sort_perm]. Qed.

(* cf_chain_ok with the precondition in library terms *)
Theorem cf_chain_ok_sorted s : good_K s -> forall ns, ns <> [] -> StronglySorted Z.le ns ->
  (forall x, In x ns -> 0 < x) ->
  exists f0, forall fuel, (f0 <= fuel)%nat ->
  exists c, cf_chain s fuel ns = Ok c /\ is_chain c /\ asc c /\ last c 0 = last ns 0 /\ forall t, In t ns -> In t c.
Proof.
  intros HK ns Hne Hs Hpos. apply cf_chain_ok; [assumption|]. split; [assumption|]. split.
  - apply nd_StronglySorted. assumption.
  - intros x Hx. specialize (Hpos x Hx). lia.
Qed.
