(* Proofs about model/Search.v (C14), part 1: the selection loop. *)
From Coq Require Import String.
From Coq Require Import List NArith ZArith Bool Arith QArith Lia.
From AV Require Import model.Proto model.Chain model.Program model.Search.
Import ListNotations.
Open Scope Z_scope.

(* ---- comparison ---- *)
Lemma qlt_true : forall a b, qlt a b = true <-> (a < b)%Q.
Proof. intros a b. unfold qlt, Qlt. apply Z.ltb_lt. Qed.

Lemma qlt_false : forall a b, qlt a b = false <-> (b <= a)%Q.
Proof. intros a b. unfold qlt, Qle. apply Z.ltb_ge. Qed.

(* ---- invariant of the selection loop ----
   pre: the rows already visited; (best, minc): the loop variables.  mincost is +Inf only before the
   first row; otherwise it is the cost of row `best`, a lower bound of every visited cost and strictly
   below every cost visited before `best`. *)
Definition sel_inv (w : weights) (pre : list (nat * nat)) (best : nat) (minc : option Q) : Prop :=
  match minc with
  | None => pre = []
  | Some c =>
      exists da, nth_error pre best = Some da /\ c = cost_of w da /\
        (forall j db, nth_error pre j = Some db -> (c <= cost_of w db)%Q) /\
        (forall j db, (j < best)%nat -> nth_error pre j = Some db -> (c < cost_of w db)%Q)
  end.

Lemma nth_error_snoc_lt : forall (A : Type) (l : list A) x j, (j < length l)%nat ->
  nth_error (l ++ [x]) j = nth_error l j.
Proof. intros. apply nth_error_app1. assumption. Qed.

Lemma nth_error_snoc_eq : forall (A : Type) (l : list A) x, nth_error (l ++ [x]) (length l) = Some x.
Proof. intros. rewrite nth_error_app2 by apply Nat.le_refl. rewrite Nat.sub_diag. reflexivity. Qed.

Lemma nth_error_snoc_inv : forall (A : Type) (l : list A) x j y, nth_error (l ++ [x]) j = Some y ->
  ((j < length l)%nat /\ nth_error l j = Some y) \/ (j = length l /\ y = x).
Proof.
  intros A l x j y H. destruct (Nat.lt_ge_cases j (length l)) as [L|L].
  - left. split; [exact L|]. rewrite nth_error_app1 in H by exact L. exact H.
  - right. rewrite nth_error_app2 in H by exact L.
    destruct (j - length l)%nat as [|k] eqn:E.
    + cbn in H. injection H as <-. split; [lia|reflexivity].
    + cbn in H. destruct k; discriminate H.
Qed.

Lemma sel_inv_step : forall w pre best minc da,
  sel_inv w pre best minc ->
  let c := cost_of w da in
  if below c minc then sel_inv w (pre ++ [da]) (length pre) (Some c)
  else sel_inv w (pre ++ [da]) best minc.
Proof.
  intros w pre best minc da I c. destruct minc as [m|]; cbn [below].
  - destruct I as (db & Hb & Hm & Hle & Hlt).
    destruct (qlt c m) eqn:E.
    + apply qlt_true in E. cbn [sel_inv]. exists da. split; [apply nth_error_snoc_eq|]. split; [reflexivity|].
      split.
      * intros j dc Hj. apply nth_error_snoc_inv in Hj. destruct Hj as [[_ Hj]|[_ ->]].
        -- apply Qlt_le_weak. apply Qlt_le_trans with m; [exact E|]. exact (Hle j dc Hj).
        -- apply Qle_refl.
      * intros j dc Lj Hj. apply nth_error_snoc_inv in Hj. destruct Hj as [[_ Hj]|[-> _]]; [|lia].
        apply Qlt_le_trans with m; [exact E|]. exact (Hle j dc Hj).
    + apply qlt_false in E. cbn [sel_inv]. exists db.
      assert (Lb : (best < length pre)%nat) by (apply nth_error_Some; rewrite Hb; discriminate).
      split; [rewrite nth_error_snoc_lt by exact Lb; exact Hb|]. split; [exact Hm|]. split.
      * intros j dc Hj. apply nth_error_snoc_inv in Hj. destruct Hj as [[_ Hj]|[_ ->]].
        -- exact (Hle j dc Hj).
        -- exact E.
      * intros j dc Lj Hj. apply nth_error_snoc_inv in Hj. destruct Hj as [[_ Hj]|[-> _]]; [|lia].
        exact (Hlt j dc Lj Hj).
  - cbn [sel_inv] in I. rewrite I. cbn [sel_inv app length]. exists da. split; [reflexivity|]. split; [reflexivity|].
    split.
    + intros j dc Hj. destruct j as [|j]; cbn in Hj; [injection Hj as <-; apply Qle_refl|destruct j; discriminate Hj].
    + intros j dc Lj. lia.
Qed.

Lemma select_loop_inv : forall w tbl pre best minc,
  sel_inv w pre best minc ->
  sel_inv w (pre ++ tbl) (fst (select_loop w tbl (length pre) best minc))
                         (snd (select_loop w tbl (length pre) best minc)).
Proof.
  intros w tbl. induction tbl as [|da r IH]; intros pre best minc I.
  - cbn [select_loop fst snd]. rewrite app_nil_r. exact I.
  - cbn [select_loop]. pose proof (sel_inv_step w pre best minc da I) as S. cbv zeta in S.
    replace (pre ++ da :: r) with ((pre ++ [da]) ++ r) by (rewrite <- app_assoc; reflexivity).
    replace (Datatypes.S (length pre)) with (length (pre ++ [da])) by (rewrite app_length; cbn; lia).
    destruct (below (cost_of w da) minc); apply IH; exact S.
Qed.

(* ---- select_min ----
   For any table and any weights: nothing is selected iff the table is empty; otherwise the selected
   cost is the cost of the selected row, it is <= the cost of every row, and every earlier row costs
   strictly more (the selected index is the FIRST one attaining the minimum). *)
Theorem select_min : forall tbl w,
  match select tbl w with
  | None => tbl = []
  | Some (i, c) =>
      exists da, nth_error tbl i = Some da /\ c = cost_of w da /\
        (forall j db, nth_error tbl j = Some db -> (c <= cost_of w db)%Q) /\
        (forall j db, (j < i)%nat -> nth_error tbl j = Some db -> (c < cost_of w db)%Q)
  end.
Proof.
  intros tbl w. unfold select.
  pose proof (select_loop_inv w tbl [] O None eq_refl) as I. cbn [app length] in I.
  destruct (select_loop w tbl 0 0 None) as [b [c|]]; cbn [fst snd sel_inv] in I; exact I.
Qed.

Corollary select_none_iff : forall tbl w, select tbl w = None <-> tbl = [].
Proof.
  intros tbl w. split.
  - intros H. pose proof (select_min tbl w) as M. rewrite H in M. exact M.
  - intros ->. reflexivity.
Qed.

(* the cost of a positive-weight setting is non-negative, and zero only for the empty program *)
Definition pos_weights (w : weights) : Prop := (0 < w_add w)%Q /\ (0 < w_dbl w)%Q.

Lemma cost_nonneg : forall w da, pos_weights w -> (0 <= cost_of w da)%Q.
Proof.
  intros w [d a] [Ha Hd]. unfold cost_of. cbn [fst snd].
  apply Qle_trans with (0 + 0)%Q; [apply Qle_refl|].
  apply Qplus_le_compat; apply Qmult_le_0_compat; try (apply Qlt_le_weak; assumption);
    unfold Qle; cbn; lia.
Qed.

(* ---- the reporting loop is the selection loop on the counts, unless an algorithm failed ---- *)
Lemma scan_select : forall w rs i best minc,
  (forall r, In r rs -> ar_err r = None) ->
  scan w rs i best minc = Ok (select_loop w (map (fun r => count (ar_prog r)) rs) i best minc).
Proof.
  intros w rs. induction rs as [|r t IH]; intros i best minc H.
  - reflexivity.
  - cbn [scan map select_loop]. rewrite (H r (or_introl eq_refl)).
    destruct (below (cost_of w (count (ar_prog r))) minc); apply IH; intros r' Hr'; apply H; right; exact Hr'.
Qed.

Lemma scan_err : forall w rs i best minc,
  (exists r, In r rs /\ ar_err r <> None) -> scan w rs i best minc = Err ($"alg").
Proof.
  intros w rs. induction rs as [|r t IH]; intros i best minc (r0 & Hin & He).
  - destruct Hin.
  - cbn [scan]. destruct (ar_err r) eqn:E; [reflexivity|].
    destruct Hin as [->|Hin]; [congruence|].
    destruct (below _ _); apply IH; exists r0; split; assumption.
Qed.
